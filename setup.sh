#!/bin/sh
# Offline warm-up: compile the standard library (plain and race), /repo and every harness test
# binary so that the first check of each property does not pay the cold build.
export GOFLAGS=-mod=mod GOPROXY=off GOSUMDB=off GOTOOLCHAIN=local
cd "$(dirname "$0")/harness" || exit 1
mkdir -p ../.build ../evidence ../replays/regress
go build ./... || exit 1
for d in props/*/; do
  id=$(basename "$d")
  go test -c -vet=off -o ../.build/$id.warm.test ./props/$id >/dev/null 2>&1 || { echo "build failed: $id"; go test -c -vet=off -o /dev/null ./props/$id; exit 1; }
  rm -f ../.build/$id.warm.test
done
for id in $RACE_PROPS c09 c12 c13; do
  [ -d props/$id ] || continue
  go test -c -race -vet=off -o ../.build/$id.warm.test ./props/$id >/dev/null 2>&1 || { echo "race build failed: $id"; exit 1; }
  rm -f ../.build/$id.warm.test
done
echo "setup ok"
