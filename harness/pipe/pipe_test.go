package pipe

import (
	"testing"
	"time"

	"github.com/cinar/indicator/v2/helper"
	"github.com/cinar/indicator/v2/trend"
)

func TestOverhead(t *testing.T) {
	in := make([]float64, 30)
	for i := range in {
		in[i] = float64(i)
	}
	start := time.Now()
	n := 5000
	for i := 0; i < n; i++ {
		r := Run1([][]float64{in}, Opts{Cap: i % 3}, func(cs []<-chan float64) <-chan float64 {
			return trend.NewSmaWithPeriod[float64](5).Compute(cs[0])
		})
		if !r.OK() || len(r.Outs[0]) != 26 {
			t.Fatal(r.Verdict, r.Detail, len(r.Outs[0]))
		}
	}
	t.Logf("per case %v", time.Since(start)/time.Duration(n))
	// a deliberate deadlock: two unread duplicates
	r := Run1([][]float64{in}, Opts{}, func(cs []<-chan float64) <-chan float64 {
		d := helper.Duplicate(cs[0], 2)
		return d[0]
	})
	t.Log(r.Verdict, r.Consumed)
	if r.Verdict != "deadlock" {
		t.Fatal("expected deadlock")
	}
}

func TestPlain(t *testing.T) {
	in := make([]float64, 30)
	start := time.Now()
	n := 5000
	for i := 0; i < n; i++ {
		out := helper.ChanToSlice(trend.NewSmaWithPeriod[float64](5).Compute(helper.SliceToChan(in)))
		if len(out) != 26 {
			t.Fatal()
		}
	}
	t.Logf("plain per case %v", time.Since(start)/time.Duration(n))
}
