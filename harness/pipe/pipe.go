// Package pipe executes one channel pipeline of the library on slice inputs: it feeds every input
// from its own goroutine, drains every output with its own reader, and decides termination and
// leaks with the goroutine census instead of a timeout.  A process runs one case at a time.
package pipe

import (
	"fmt"
	"runtime"
	"sync"
	"sync/atomic"
	"time"

	"verif/harness/census"
)

// Opts vary what the property must not depend on.
type Opts struct {
	Cap      int    // capacity of the input channels
	FeedMask uint64 // bit i%64 set: the producer yields before sending element i
	SinkMask uint64 // bit i%64 set: the consumer yields before receiving element i
	Procs    int    // GOMAXPROCS during the case (0 = leave unchanged)
	// FullCap gives input i a capacity of len(input i), so that its producer can finish even if
	// the pipeline deliberately leaves elements unread (Head).
	FullCap bool
	// SpinLimit, when set, turns a case whose goroutines are still RUNNING (not parked) after that
	// long into a "livelock" verdict. This is the one wall-clock criterion in the harness; it is
	// used only where the statement says "never blocks forever" about inputs of a few dozen bytes
	// that take microseconds (C19), with a margin of six orders of magnitude.
	SpinLimit time.Duration
}

// Result of one execution.
type Result[R any] struct {
	Outs     [][]R
	Verdict  string // "ok", "deadlock", "leak"
	Detail   string
	Consumed []int  // elements each producer managed to send
	FeedDone []bool // producer ran to completion (its input was consumed to the end)
}

// OK reports whether the pipeline terminated cleanly.
func (r Result[R]) OK() bool { return r.Verdict == "ok" }

func feed[T any](c chan<- T, v []T, mask uint64, sent *int64, done *int32) {
	for i, x := range v {
		if mask>>(uint(i)%64)&1 == 1 {
			runtime.Gosched()
		}
		c <- x
		atomic.AddInt64(sent, 1)
	}
	close(c)
	atomic.StoreInt32(done, 1)
}

func sink[R any](c <-chan R, out *[]R, mask uint64, wg *sync.WaitGroup) {
	defer wg.Done()
	i := 0
	for {
		if mask>>(uint(i)%64)&1 == 1 {
			runtime.Gosched()
		}
		x, ok := <-c
		if !ok {
			return
		}
		*out = append(*out, x)
		i++
	}
}

// CensusAnomalies counts the times the goroutine dump missed a feeder that was still alive.
var CensusAnomalies int64

var mu sync.Mutex // one case at a time per process: the census is process-wide

// Run executes build on channels fed from ins and returns what every output delivered.
func Run[T any, R any](ins [][]T, opt Opts, build func([]<-chan T) []<-chan R) Result[R] {
	mu.Lock()
	defer mu.Unlock()
	if opt.Procs > 0 {
		old := runtime.GOMAXPROCS(opt.Procs)
		defer runtime.GOMAXPROCS(old)
	}
	base := census.Baseline()
	chs := make([]chan T, len(ins))
	cs := make([]<-chan T, len(ins))
	for i := range ins {
		c := opt.Cap
		if opt.FullCap {
			c = len(ins[i])
		}
		chs[i] = make(chan T, c)
		cs[i] = chs[i]
	}
	outs := build(cs)
	sent := make([]int64, len(ins))
	fdone := make([]int32, len(ins))
	for i := range ins {
		go feed(chs[i], ins[i], opt.FeedMask, &sent[i], &fdone[i])
	}
	res := Result[R]{Outs: make([][]R, len(outs))}
	var wg sync.WaitGroup
	for i := range outs {
		wg.Add(1)
		go sink(outs[i], &res.Outs[i], opt.SinkMask, &wg)
	}
	var done int32
	go func() { wg.Wait(); atomic.StoreInt32(&done, 1) }()

	finish := func(verdict, detail string) Result[R] {
		res.Verdict, res.Detail = verdict, detail
		res.Consumed = make([]int, len(ins))
		res.FeedDone = make([]bool, len(ins))
		for i := range ins {
			res.Consumed[i] = int(atomic.LoadInt64(&sent[i]))
			res.FeedDone[i] = atomic.LoadInt32(&fdone[i]) == 1
		}
		return res
	}
	// Wait for every output to close.  Yield-spinning first (a case usually takes well under a
	// millisecond and timer sleeps are coarse), then census + sleep.  Time only affects latency.
	started := time.Now()
	for spin := 0; atomic.LoadInt32(&done) == 0; spin++ {
		if opt.SpinLimit > 0 && spin > 3000 && time.Since(started) > opt.SpinLimit {
			_, rel := base.Verdict()
			return finish("livelock", fmt.Sprintf("still running after %v, outputs not closed:\n%s", opt.SpinLimit, census.Describe(rel, 4)))
		}
		if spin < 3000 {
			runtime.Gosched()
			continue
		}
		if stuck, rel := base.StableStuck(); stuck && atomic.LoadInt32(&done) == 0 {
			return finish("deadlock", fmt.Sprintf("%d goroutines parked for ever, outputs not all closed:\n%s", len(rel), census.Describe(rel, 6)))
		}
		time.Sleep(500 * time.Microsecond)
	}
	// all outputs closed: whatever the pipeline started must now go away
	closedAt := time.Now()
	for spin := 0; ; spin++ {
		v, rel := base.Verdict()
		if v == census.None {
			// cross-check with ground truth the harness owns: "no goroutine of this case is left"
			// implies that every feeder has run to its end. Once in 15.7 million cases (thorough
			// tier, C16 Head) the goroutine dump did not show a feeder that had not even started;
			// the flags decide, the dump is asked again.
			allFed := true
			for i := range fdone {
				if atomic.LoadInt32(&fdone[i]) == 0 {
					allFed = false
				}
			}
			if allFed || spin > 100000 {
				return finish("ok", "")
			}
			atomic.AddInt64(&CensusAnomalies, 1)
			runtime.Gosched()
			continue
		}
		if opt.SpinLimit > 0 && spin > 3000 && time.Since(closedAt) > 6*opt.SpinLimit {
			return finish("leak", fmt.Sprintf("outputs closed, but %d goroutines are still there %v later:\n%s", len(rel), 6*opt.SpinLimit, census.Describe(rel, 6)))
		}
		if v == census.Stuck {
			if stuck, _ := base.StableStuck(); !stuck {
				continue
			}
			return finish("leak", fmt.Sprintf("outputs closed but %d goroutines remain parked for ever:\n%s", len(rel), census.Describe(rel, 6)))
		}
		if spin < 200 {
			for j := 0; j < 50; j++ {
				runtime.Gosched()
			}
		} else {
			time.Sleep(500 * time.Microsecond)
		}
	}
}

// Run1 is Run for pipelines with one output.
func Run1[T any, R any](ins [][]T, opt Opts, build func([]<-chan T) <-chan R) Result[R] {
	return Run(ins, opt, func(cs []<-chan T) []<-chan R { return []<-chan R{build(cs)} })
}

func caseRoot(f func(), done *int32) {
	f()
	atomic.StoreInt32(done, 1)
}

// Call runs f (any blocking library call) in its own goroutine and waits for it with the goroutine
// census. EVERYTHING f depends on for progress must be started inside f: goroutines that exist
// before the call belong to the baseline and are not looked at, so an f that waits for them would
// be taken for a deadlock as soon as they are slow (this happened once: a report built before the
// call, see DESIGN.md 8.3). it returns "deadlock" if f has not returned and every goroutine started since the call
// is parked for ever. It holds the same one-case-at-a-time lock as Run.
func Call(f func()) (verdict, detail string) {
	mu.Lock()
	defer mu.Unlock()
	base := census.Baseline()
	var done int32
	go caseRoot(f, &done)
	for spin := 0; atomic.LoadInt32(&done) == 0; spin++ {
		if spin < 3000 {
			runtime.Gosched()
			continue
		}
		if stuck, rel := base.StableStuck(); stuck && atomic.LoadInt32(&done) == 0 {
			return "deadlock", fmt.Sprintf("%d goroutines parked for ever, the call has not returned:\n%s", len(rel), census.Describe(rel, 6))
		}
		time.Sleep(500 * time.Microsecond)
	}
	return "ok", ""
}
