module verif/harness

go 1.23

toolchain go1.23.5

require (
	github.com/cinar/indicator/v2 v2.0.0
	pgregory.net/rapid v1.3.0
)

replace github.com/cinar/indicator/v2 => /repo
