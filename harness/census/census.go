// Package census takes consistent snapshots of all goroutines (runtime.Stack(all) stops the
// world) and derives verdicts that need no timing assumption: a set of goroutines that are all
// parked in channel operations or semaphores, with nobody left who could wake them, is final.
package census

import (
	"bytes"
	"runtime"
	"strconv"
	"strings"
	"sync"
	"time"
)

// G describes one goroutine of a snapshot.
type G struct {
	ID    int64
	State string
	Stack string
}

var (
	bufMu sync.Mutex
	buf   = make([]byte, 1<<18)
)

// Snapshot returns every goroutine of the process.
func Snapshot() []G {
	bufMu.Lock()
	defer bufMu.Unlock()
	var b []byte
	for {
		n := runtime.Stack(buf, true)
		if n < len(buf) {
			b = buf[:n]
			break
		}
		buf = make([]byte, 2*len(buf))
	}
	var out []G
	for len(b) > 0 {
		var blk []byte
		if i := bytes.Index(b, []byte("\n\n")); i >= 0 {
			blk, b = b[:i], b[i+2:]
		} else {
			blk, b = b, nil
		}
		// "goroutine 12 [chan receive, 2 minutes]:"
		if !bytes.HasPrefix(blk, []byte("goroutine ")) {
			continue
		}
		rest := blk[len("goroutine "):]
		sp := bytes.IndexByte(rest, ' ')
		if sp < 0 || sp+2 > len(rest) || rest[sp+1] != '[' {
			continue
		}
		id, err := strconv.ParseInt(string(rest[:sp]), 10, 64)
		if err != nil {
			continue
		}
		st := rest[sp+2:]
		end := bytes.IndexAny(st, "],")
		if end < 0 {
			continue
		}
		out = append(out, G{ID: id, State: string(st[:end]), Stack: string(blk)})
	}
	return out
}

// Markers identify the goroutines a case is responsible for: library frames and the harness's
// own feeder / reader functions.
// (pipe.Run / pipe.Call match the "created by" line: a goroutine that is running on another thread
// while the dump is taken is printed as "stack unavailable" with that line only)
var Markers = []string{"github.com/cinar/indicator/", "verif/harness/pipe.feed", "verif/harness/pipe.sink", "verif/harness/pipe.caseRoot", "verif/harness/props/", "verif/harness/pipe.Run", "verif/harness/pipe.Call", "verif/harness/reg.warm", "verif/harness/stub."}

func relevant(g G) bool {
	for _, m := range Markers {
		if strings.Contains(g.Stack, m) {
			return true
		}
	}
	return false
}

// Plain "semacquire" is deliberately absent: it is also the state of a goroutine waiting for a
// runtime-internal semaphore (e.g. the world semaphore held by the snapshot itself), which is
// transient.  "select" is absent because a select may hold a timer (net/http).
// parked lists the wait states from which a goroutine can only be released by another goroutine.
var parked = map[string]bool{
	"chan receive": true, "chan send": true, "chan receive (nil chan)": true, "chan send (nil chan)": true,
	"select (no cases)": true, "sync.WaitGroup.Wait": true, "sync.Cond.Wait": true,
	"sync.Mutex.Lock": true, "sync.RWMutex.RLock": true, "sync.RWMutex.Lock": true,
}

// isParked: a parked wait state, or a plain "semacquire" that the stack shows to be a
// sync.WaitGroup.Wait / sync.Mutex.Lock (Go 1.23 reports those as semacquire); a semacquire inside
// the runtime (world stop, GC start) is transient and does not count.
func isParked(g G) bool {
	if g.State == "select" && strings.Contains(g.Stack, "database/sql.(*DB).conn(") {
		// waiting for a free connection of a database/sql pool without a deadline (the library
		// passes context.Background()): only another goroutine returning its connection ends it
		return true
	}
	if g.State == "select" && strings.Contains(g.Stack, "\nio.(*pipe).") {
		// io.Pipe selects over its own channels only (no timer): a reader or writer whose peer is
		// gone stays there for ever
		return true
	}
	if foreignWait(g) {
		// blocked on a channel or lock that belongs to a standard-library component with helper
		// goroutines of its own (net/http's body reader waits for its connection's read loop to
		// acknowledge EOF, for instance): those goroutines carry no marker, so "every relevant
		// goroutine is parked" would not mean that nothing can move
		return false
	}
	if parked[g.State] {
		return true
	}
	if g.State == "semacquire" {
		return strings.Contains(g.Stack, "sync.(*WaitGroup).Wait") || strings.Contains(g.Stack, "sync.(*Mutex).Lock") || strings.Contains(g.Stack, "sync.(*RWMutex).")
	}
	return false
}

// foreignWait reports whether the innermost frame that is not runtime / sync plumbing belongs to
// net, net/http, os, crypto or database/sql.
func foreignWait(g G) bool {
	lines := strings.Split(g.Stack, "\n")
	for i := 1; i < len(lines); i += 2 {
		fn := lines[i]
		if strings.HasPrefix(fn, "runtime.") || strings.HasPrefix(fn, "sync.") || strings.HasPrefix(fn, "internal/") || strings.HasPrefix(fn, "sync/") {
			continue
		}
		// (io.Pipe and bufio keep no goroutines of their own: a wait inside them is an ordinary
		// channel / lock wait between the caller's goroutines)
		for _, p := range []string{"net/", "net.", "os.", "os/", "database/sql", "crypto/"} {
			if strings.HasPrefix(fn, p) {
				return true
			}
		}
		return false
	}
	return false
}

// Base is the set of goroutines that existed before a case started.
type Base map[int64]bool

// Baseline records the goroutines alive now.
func Baseline() Base {
	b := Base{}
	for _, g := range Snapshot() {
		b[g.ID] = true
	}
	return b
}

// Verdicts.
const (
	Progress = iota // some relevant goroutine can still run
	Stuck           // relevant goroutines exist and every one of them is parked
	None            // no relevant goroutine exists
)

// Verdict classifies the goroutines created since the baseline.
func (b Base) Verdict() (int, []G) {
	var rel []G
	for _, g := range Snapshot() {
		if !b[g.ID] && relevant(g) {
			rel = append(rel, g)
		}
	}
	if len(rel) == 0 {
		return None, nil
	}
	for _, g := range rel {
		if !isParked(g) {
			return Progress, rel
		}
	}
	return Stuck, rel
}

// Describe renders the first frames of the given goroutines for a failure message.
func Describe(gs []G, max int) string {
	var sb strings.Builder
	for i, g := range gs {
		if i >= max {
			sb.WriteString("...\n")
			break
		}
		lines := strings.Split(g.Stack, "\n")
		if len(lines) > 7 {
			lines = lines[:7]
		}
		sb.WriteString(strings.Join(lines, "\n"))
		sb.WriteString("\n")
	}
	return sb.String()
}

// StableStuck reports Stuck only if three consecutive snapshots, separated by yields, show the
// same set of relevant goroutines, all parked: a final state persists, a transient one does not.
func (b Base) StableStuck() (bool, []G) {
	v, rel := b.Verdict()
	if v != Stuck {
		return false, rel
	}
	for i := 0; i < 2; i++ {
		for j := 0; j < 20; j++ {
			runtime.Gosched()
		}
		time.Sleep(200 * time.Microsecond)
		v2, rel2 := b.Verdict()
		if v2 != Stuck || len(rel2) != len(rel) {
			return false, rel2
		}
		for k := range rel {
			if rel[k].ID != rel2[k].ID || rel[k].State != rel2[k].State {
				return false, rel2
			}
		}
	}
	return true, rel
}

func runtimeStack(buf []byte) int { return runtime.Stack(buf, true) }
