package census

import (
	"testing"
	"time"
)

func TestCost(t *testing.T) {
	start := time.Now()
	for i := 0; i < 1000; i++ {
		Baseline()
	}
	t.Logf("baseline %v", time.Since(start)/1000)
	start = time.Now()
	for i := 0; i < 1000; i++ {
		time.Sleep(50 * time.Microsecond)
	}
	t.Logf("sleep50us %v", time.Since(start)/1000)
}

func TestCost2(t *testing.T) {
	buf := make([]byte, 1<<18)
	start := time.Now()
	for i := 0; i < 1000; i++ {
		runtimeStack(buf)
	}
	t.Logf("raw stack %v", time.Since(start)/1000)
}
