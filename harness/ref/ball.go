// Package ref holds slice reference models of the indicators, written from their doc comments over
// ABSOLUTE input positions, with first-order error tracking ("balls") so that the comparison with
// the streaming implementation needs no hand-tuned tolerance: a position is compared when the
// propagated error bound is finite and exempt when a denominator's ball contains zero or a
// comparison is ambiguous - exactly the exemption the property grants.
package ref

import "math"

// Eps is the relative rounding error charged per floating-point operation (one ulp, i.e. twice
// the unit round-off, to be on the safe side).
const Eps = 0x1p-52

// B is a value with an absolute error bound. E = +Inf marks "undefined / ill-conditioned".
type B struct{ V, E float64 }

// Exact lifts an exactly known value.
func Exact(v float64) B { return B{v, 0} }

// Bad is the undefined ball.
func Bad() B { return B{math.NaN(), math.Inf(1)} }

// IsBad reports whether the value is exempt from comparison.
func (a B) IsBad() bool { return math.IsInf(a.E, 0) || math.IsNaN(a.E) || math.IsNaN(a.V) || math.IsInf(a.V, 0) }

func ulp(v float64) float64 { return math.Abs(v) * Eps }

func fin(v, e float64) B {
	if math.IsNaN(v) || math.IsInf(v, 0) || math.IsNaN(e) {
		return Bad()
	}
	return B{v, e}
}

// Add returns a+b.
func Add(a, b B) B { v := a.V + b.V; return fin(v, a.E+b.E+ulp(v)) }

// Sub returns a-b.
func Sub(a, b B) B { v := a.V - b.V; return fin(v, a.E+b.E+ulp(v)) }

// Mul returns a*b.
func Mul(a, b B) B {
	v := a.V * b.V
	return fin(v, math.Abs(a.V)*b.E+math.Abs(b.V)*a.E+a.E*b.E+ulp(v))
}

// Div returns a/b; a denominator whose ball contains zero makes the result undefined.
func Div(a, b B) B {
	if a.IsBad() || b.IsBad() {
		return Bad()
	}
	lo := math.Abs(b.V) - b.E
	if !(lo > 0) {
		return Bad()
	}
	v := a.V / b.V
	return fin(v, (a.E+math.Abs(v)*b.E)/lo+ulp(v))
}

// Scale returns c*a for an exactly known constant c.
func Scale(a B, c float64) B { v := a.V * c; return fin(v, math.Abs(c)*a.E+ulp(v)) }

// AddC returns a+c for an exactly known constant c.
func AddC(a B, c float64) B { v := a.V + c; return fin(v, a.E+ulp(v)) }

// Abs returns |a|.
func Abs(a B) B { return fin(math.Abs(a.V), a.E) }

// Neg returns -a.
func Neg(a B) B { return fin(-a.V, a.E) }

// Sqrt returns the square root; a radicand whose ball reaches zero or below is ill-conditioned
// (the derivative is unbounded there), unless it is exactly zero.
func Sqrt(a B) B {
	if a.IsBad() {
		return Bad()
	}
	if a.V == 0 && a.E == 0 {
		return B{0, 0}
	}
	lo := a.V - a.E
	if a.V+a.E < 0 {
		return Bad()
	}
	if !(lo > 0) {
		// the radicand's ball reaches zero: the true root lies in [0, sqrt(V+E)], which is a
		// perfectly good (if wide) ball - a standard deviation of a flat window is "about 0",
		// not undefined
		hi := math.Sqrt(math.Max(a.V, 0) + a.E)
		v := math.Sqrt(math.Max(a.V, 0))
		return fin(v, hi+ulp(hi))
	}
	v := math.Sqrt(a.V)
	return fin(v, a.E/(2*math.Sqrt(lo))+ulp(v))
}

// Max returns the larger value (1-Lipschitz in both arguments).
func Max(a, b B) B {
	if a.IsBad() || b.IsBad() {
		return Bad()
	}
	return B{math.Max(a.V, b.V), math.Max(a.E, b.E)}
}

// Min returns the smaller value.
func Min(a, b B) B {
	if a.IsBad() || b.IsBad() {
		return Bad()
	}
	return B{math.Min(a.V, b.V), math.Max(a.E, b.E)}
}

// Cmp compares two balls: -1, 0 (ambiguous: the balls overlap or touch), +1. Exactly known equal
// values compare as 0 with sure=true.
func Cmp(a, b B) (sign int, sure bool) {
	if a.IsBad() || b.IsBad() {
		return 0, false
	}
	if a.E == 0 && b.E == 0 {
		switch {
		case a.V < b.V:
			return -1, true
		case a.V > b.V:
			return 1, true
		}
		return 0, true
	}
	if a.V+a.E < b.V-b.E {
		return -1, true
	}
	if a.V-a.E > b.V+b.E {
		return 1, true
	}
	return 0, false
}

// Slack multiplies every derived bound in the comparison; the bounds are first-order.
const Slack = 16

// Agrees reports whether an implementation value lies within the ball.
func (a B) Agrees(impl float64) bool {
	if a.IsBad() {
		return true
	}
	if math.IsNaN(impl) || math.IsInf(impl, 0) {
		return false
	}
	return math.Abs(impl-a.V) <= Slack*a.E+math.SmallestNonzeroFloat64
}
