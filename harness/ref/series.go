package ref

import "math"

// S is a series of balls whose first element refers to absolute input position At.
type S struct {
	At int
	V  []B
}

// Lift turns exactly known inputs into a series starting at position 0.
func Lift(xs []float64) S {
	out := S{At: 0, V: make([]B, len(xs))}
	for i, x := range xs {
		out.V[i] = fin(x, 0)
	}
	return out
}

// End is the position after the last element.
func (s S) End() int { return s.At + len(s.V) }

// Len is the number of elements.
func (s S) Len() int { return len(s.V) }

// Get returns the ball at an absolute position.
func (s S) Get(pos int) (B, bool) {
	i := pos - s.At
	if i < 0 || i >= len(s.V) {
		return B{}, false
	}
	return s.V[i], true
}

// Zip combines series position-wise over the intersection of their position ranges.
func Zip(f func(x []B) B, ss ...S) S {
	lo, hi := math.MinInt32, math.MaxInt32
	for _, s := range ss {
		if s.At > lo {
			lo = s.At
		}
		if s.End() < hi {
			hi = s.End()
		}
	}
	out := S{At: lo}
	if hi <= lo {
		return out
	}
	out.V = make([]B, 0, hi-lo)
	xs := make([]B, len(ss))
	for p := lo; p < hi; p++ {
		for i, s := range ss {
			xs[i] = s.V[p-s.At]
		}
		out.V = append(out.V, f(xs))
	}
	return out
}

// Map applies f to every element.
func Map(s S, f func(B) B) S {
	out := S{At: s.At, V: make([]B, len(s.V))}
	for i, x := range s.V {
		out.V[i] = f(x)
	}
	return out
}

// AddS etc. are the position-wise arithmetic operations.
func AddS(a, b S) S { return Zip(func(x []B) B { return Add(x[0], x[1]) }, a, b) }
func SubS(a, b S) S { return Zip(func(x []B) B { return Sub(x[0], x[1]) }, a, b) }
func MulS(a, b S) S { return Zip(func(x []B) B { return Mul(x[0], x[1]) }, a, b) }
func DivS(a, b S) S { return Zip(func(x []B) B { return Div(x[0], x[1]) }, a, b) }
func ScaleS(a S, c float64) S { return Map(a, func(x B) B { return Scale(x, c) }) }
func AddCS(a S, c float64) S  { return Map(a, func(x B) B { return AddC(x, c) }) }
func AbsS(a S) S              { return Map(a, Abs) }
func SqrtS(a S) S             { return Map(a, Sqrt) }

// Tail drops everything before absolute position at.
func Tail(s S, at int) S {
	if at <= s.At {
		return s
	}
	if at >= s.End() {
		return S{At: at}
	}
	return S{At: at, V: s.V[at-s.At:]}
}

// Lag returns the series whose value at position p is s at p-k (k >= 0): "k positions ago".
func Lag(s S, k int) S { return S{At: s.At + k, V: s.V} }

// Win applies f to every full window of p consecutive elements; the result refers to the position
// of the window's last element.
func Win(s S, p int, f func(w []B, endPos int) B) S {
	out := S{At: s.At + p - 1}
	if p < 1 {
		return out
	}
	for i := p - 1; i < len(s.V); i++ {
		out.V = append(out.V, f(s.V[i-p+1:i+1], s.At+i))
	}
	return out
}

// maxAbsPrefix returns, for every index, the largest |value|+error seen so far.
func maxAbsPrefix(s S) []float64 {
	out := make([]float64, len(s.V))
	m := 0.0
	for i, x := range s.V {
		a := math.Abs(x.V) + x.E
		if a > m || math.IsNaN(a) {
			m = a
		}
		out[i] = m
	}
	return out
}

// WinSum is the moving sum over p elements. Its error bound covers both a per-window summation
// and a running-sum implementation (add the newcomer, subtract the leaver), whose rounding errors
// accumulate with the position and with the largest magnitude ever seen.
func WinSum(s S, p int) S {
	hist := maxAbsPrefix(s)
	out := S{At: s.At + p - 1}
	if p < 1 {
		return out
	}
	for i := p - 1; i < len(s.V); i++ {
		v, e := 0.0, 0.0
		for _, x := range s.V[i-p+1 : i+1] {
			v += x.V
			e += x.E
		}
		// every earlier element's error bound may linger in a running sum only through rounding:
		// 2 operations per step, each at most Eps * |partial sum| <= Eps * p * hist.
		e += 2 * Eps * float64(i+2) * float64(p) * hist[i]
		// an undefined element poisons a running sum for ever after
		bad := false
		for _, x := range s.V[:i+1] {
			if x.IsBad() {
				bad = true
				break
			}
		}
		if bad {
			out.V = append(out.V, Bad())
		} else {
			out.V = append(out.V, fin(v, e))
		}
	}
	return out
}

// Sma is the simple moving average over p elements.
func Sma(s S, p int) S { return ScaleS(WinSum(s, p), 1/float64(p)) }

// SmaDiv divides the moving sum by p (as the implementation does) rather than multiplying by 1/p.
func SmaDiv(s S, p int) S {
	return Map(WinSum(s, p), func(x B) B { return Div(x, Exact(float64(p))) })
}

// WinMax / WinMin are the moving extremes (exact selections: the error is that of the inputs).
func WinMax(s S, p int) S {
	return Win(s, p, func(w []B, _ int) B {
		m := w[0]
		for _, x := range w[1:] {
			m = Max(m, x)
		}
		return m
	})
}
func WinMin(s S, p int) S {
	return Win(s, p, func(w []B, _ int) B {
		m := w[0]
		for _, x := range w[1:] {
			m = Min(m, x)
		}
		return m
	})
}

// Rec is a recursive average seeded with the SMA of the first p elements; step computes the next
// value from the previous one and the new element.
func Rec(s S, p int, step func(prev, x B) B) S {
	out := S{At: s.At + p - 1}
	if p < 1 || len(s.V) < p {
		return out
	}
	seed := SmaDiv(S{At: s.At, V: s.V[:p]}, p)
	prev := seed.V[0]
	out.V = append(out.V, prev)
	for i := p; i < len(s.V); i++ {
		prev = step(prev, s.V[i])
		out.V = append(out.V, prev)
	}
	return out
}

// Ema is the exponential moving average with multiplier smoothing/(p+1), seeded with the SMA.
func Ema(s S, p int) S { return EmaK(s, p, 2) }

// EmaK is Ema with an explicit smoothing constant.
func EmaK(s S, p int, smoothing float64) S {
	m := smoothing / float64(p+1)
	return Rec(s, p, func(prev, x B) B { return Add(Scale(Sub(x, prev), m), prev) })
}

// Rma is the rolling moving average R[i] = (R[i-1]*(p-1) + v[i]) / p, seeded with the SMA.
func Rma(s S, p int) S {
	return Rec(s, p, func(prev, x B) B { return Div(Add(Scale(prev, float64(p-1)), x), Exact(float64(p))) })
}

// Change is x[i] - x[i-k].
func Change(s S, k int) S { return SubS(s, Lag(s, k)) }

// Cum is the running total from the first element (errors accumulate).
func Cum(s S, start float64) S {
	out := S{At: s.At, V: make([]B, len(s.V))}
	acc := Exact(start)
	for i, x := range s.V {
		acc = Add(acc, x)
		out.V[i] = acc
	}
	return out
}

// Const is a series of n copies of an exact constant starting at position at.
func Const(at, n int, c float64) S {
	out := S{At: at, V: make([]B, n)}
	for i := range out.V {
		out.V[i] = Exact(c)
	}
	return out
}

// PoisonAfterBad makes every element after the first undefined one undefined as well (for
// recursive outputs, where one ill-conditioned step contaminates the rest).
func PoisonAfterBad(s S) S {
	out := S{At: s.At, V: make([]B, len(s.V))}
	bad := false
	for i, x := range s.V {
		if bad || x.IsBad() {
			bad = true
			out.V[i] = Bad()
		} else {
			out.V[i] = x
		}
	}
	return out
}
