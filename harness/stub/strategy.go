// Package stub holds test doubles: scripted strategies, snapshot builders, recording reports,
// fault-injecting repositories and an in-memory database/sql driver.
package stub

import (
	"sync/atomic"
	"time"

	"github.com/cinar/indicator/v2/asset"
	"github.com/cinar/indicator/v2/helper"
	"github.com/cinar/indicator/v2/strategy"
	"verif/harness/gen"
)

// Scripted is a strategy that replays a fixed action word, one action per snapshot (Hold beyond
// the end of the word).
type Scripted struct {
	Label string
	Word  []strategy.Action
	// OneShot: only the first Compute call replays the word; later calls on the same instance
	// replay it inverted (a strategy fed by a live signal, a random baseline: the Strategy
	// interface does not promise repeatability). Calls counts the Compute calls.
	OneShot bool
	Calls   int32
	// Stop: the action stream ends after len(Word) actions (the remaining snapshots are consumed
	// and dropped): a member whose stream is shorter than its siblings'
	Stop bool
}

// Name returns the label.
func (s *Scripted) Name() string { return s.Label }

// Compute emits Word[i] for the i-th snapshot.
func (s *Scripted) Compute(c <-chan *asset.Snapshot) <-chan strategy.Action {
	out := make(chan strategy.Action, cap(c))
	invert := atomic.AddInt32(&s.Calls, 1) > 1 && s.OneShot
	go func() {
		defer close(out)
		i := 0
		for range c {
			if s.Stop && i >= len(s.Word) {
				// end the action stream first, then keep consuming (a member that blocked its
				// siblings by not reading would be the stub's deadlock, not the library's)
				go helper.Drain(c)
				return
			}
			a := strategy.Hold
			if i < len(s.Word) {
				a = s.Word[i]
			}
			if invert {
				a = -a
			}
			out <- a
			i++
		}
	}()
	return out
}

// Report builds the same three-column report the library's combinators build.
func (s *Scripted) Report(c <-chan *asset.Snapshot) *helper.Report {
	snapshots := helper.Duplicate(c, 3)
	dates := asset.SnapshotsAsDates(snapshots[0])
	closings := asset.SnapshotsAsClosings(snapshots[1])
	actions, outcomes := strategy.ComputeWithOutcome(s, snapshots[2])
	annotations := strategy.ActionsToAnnotations(actions)
	outcomes = helper.MultiplyBy(outcomes, 100)
	report := helper.NewReport(s.Name(), dates)
	report.AddChart()
	report.AddColumn(helper.NewNumericReportColumn("Close", closings))
	report.AddColumn(helper.NewAnnotationReportColumn(annotations))
	report.AddColumn(helper.NewNumericReportColumn("Outcome", outcomes), 1)
	return report
}

// Day0 is the date of the first generated snapshot.
var Day0 = time.Date(2001, 1, 1, 0, 0, 0, 0, time.UTC)

// Snapshots turns bars into snapshots on consecutive days.
func Snapshots(b gen.Bars) []*asset.Snapshot {
	out := make([]*asset.Snapshot, b.Len())
	for i := range out {
		out[i] = &asset.Snapshot{Date: Day0.AddDate(0, 0, i), Open: b.Open[i], High: b.High[i], Low: b.Low[i], Close: b.Close[i], Volume: b.Volume[i]}
	}
	return out
}

// SnapshotsFromCloses builds snapshots whose other price fields bracket the close.
func SnapshotsFromCloses(cl []float64) []*asset.Snapshot {
	out := make([]*asset.Snapshot, len(cl))
	for i, c := range cl {
		out[i] = &asset.Snapshot{Date: Day0.AddDate(0, 0, i), Open: c, High: c * 1.25, Low: c * 0.75, Close: c, Volume: 1000}
	}
	return out
}

// Denormalize is the slice model of the standing recommendation.
func Denormalize(w []strategy.Action) []strategy.Action {
	out := make([]strategy.Action, len(w))
	last := strategy.Hold
	for i, a := range w {
		if a != strategy.Hold && a != last {
			last = a
		}
		out[i] = last
	}
	return out
}

// Normalize is the slice model of NormalizeActions: only changes of direction, starting with Buy.
func Normalize(w []strategy.Action) []strategy.Action {
	out := make([]strategy.Action, len(w))
	last := strategy.Sell
	for i, a := range w {
		if a != strategy.Hold && a != last {
			last = a
			out[i] = a
		}
	}
	return out
}
