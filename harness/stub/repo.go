package stub

import (
	"errors"
	"time"

	"github.com/cinar/indicator/v2/asset"
	"github.com/cinar/indicator/v2/helper"
)

// FaultRepo wraps a repository and fails GetSince / Append for chosen asset names.
type FaultRepo struct {
	asset.Repository
	FailGetSince map[string]bool
	FailAppend   map[string]bool
}

// ErrInjected is the injected fault.
var ErrInjected = errors.New("injected fault")

// GetSince fails for the chosen names.
func (f *FaultRepo) GetSince(name string, date time.Time) (<-chan *asset.Snapshot, error) {
	if f.FailGetSince[name] {
		return nil, ErrInjected
	}
	return f.Repository.GetSince(name, date)
}

// Append fails for the chosen names (after consuming the stream, so that the producer can finish).
func (f *FaultRepo) Append(name string, snapshots <-chan *asset.Snapshot) error {
	if f.FailAppend[name] {
		helper.Drain(snapshots)
		return ErrInjected
	}
	return f.Repository.Append(name, snapshots)
}
