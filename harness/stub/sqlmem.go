package stub

import (
	"database/sql"
	"database/sql/driver"
	"errors"
	"fmt"
	"io"
	"sync"
	"time"
)

// The module ships neither a SQL driver nor a dialect. This is a small in-memory
// database/sql/driver whose "statements" are opaque keys; it implements their documented meaning:
// create, list distinct names, rows of a name with date >= bound in insertion order, date of the
// last row of a name (no row when there is none), insert.

type memDB struct {
	mu   sync.Mutex
	rows []memRow
	// FailAppend makes inserts for these names fail.
	failAppend map[string]bool
}

type memRow struct {
	name string
	vals []driver.Value
}

type memDriver struct {
	mu  sync.Mutex
	dbs map[string]*memDB
}

var theDriver = &memDriver{dbs: map[string]*memDB{}}

// SQLDriverName is the name under which the in-memory driver is registered.
const SQLDriverName = "verifmem"

func init() { sql.Register(SQLDriverName, theDriver) }

// ResetSQL forgets the named in-memory database.
func ResetSQL(name string) {
	theDriver.mu.Lock()
	defer theDriver.mu.Unlock()
	delete(theDriver.dbs, name)
}

func (d *memDriver) Open(name string) (driver.Conn, error) {
	d.mu.Lock()
	defer d.mu.Unlock()
	db := d.dbs[name]
	if db == nil {
		db = &memDB{failAppend: map[string]bool{}}
		d.dbs[name] = db
	}
	return &memConn{db}, nil
}

type memConn struct{ db *memDB }

func (c *memConn) Prepare(q string) (driver.Stmt, error) { return &memStmt{c.db, q}, nil }
func (c *memConn) Close() error                           { return nil }
func (c *memConn) Begin() (driver.Tx, error)              { return nil, errors.New("transactions are not supported") }

type memStmt struct {
	db *memDB
	q  string
}

func (s *memStmt) Close() error { return nil }
func (s *memStmt) NumInput() int {
	switch s.q {
	case "GETSINCE":
		return 2
	case "LASTDATE", "LASTDATE_MAX":
		return 1
	case "APPEND":
		return 7
	}
	return 0
}

func (s *memStmt) Exec(args []driver.Value) (driver.Result, error) {
	s.db.mu.Lock()
	defer s.db.mu.Unlock()
	switch s.q {
	case "CREATE":
	case "DROP":
		s.db.rows = nil
	case "APPEND":
		s.db.rows = append(s.db.rows, memRow{args[0].(string), append([]driver.Value{}, args[1:]...)})
	default:
		return nil, fmt.Errorf("unknown statement %q", s.q)
	}
	return driver.RowsAffected(1), nil
}

func (s *memStmt) Query(args []driver.Value) (driver.Rows, error) {
	s.db.mu.Lock()
	defer s.db.mu.Unlock()
	var out [][]driver.Value
	var cols []string
	switch s.q {
	case "ASSETS":
		cols = []string{"name"}
		seen := map[string]bool{}
		for _, r := range s.db.rows {
			if !seen[r.name] {
				seen[r.name] = true
				out = append(out, []driver.Value{r.name})
			}
		}
	case "GETSINCE":
		cols = []string{"date", "open", "high", "low", "close", "volume"}
		since := args[1].(time.Time)
		for _, r := range s.db.rows {
			if r.name == args[0].(string) && !r.vals[0].(time.Time).Before(since) {
				out = append(out, r.vals)
			}
		}
	case "LASTDATE":
		cols = []string{"date"}
		for i := len(s.db.rows) - 1; i >= 0; i-- {
			if s.db.rows[i].name == args[0].(string) {
				out = append(out, []driver.Value{s.db.rows[i].vals[0]})
				break
			}
		}
	case "LASTDATE_MAX":
		// the aggregate form, SELECT MAX(date) ... WHERE name = ?: always one row, NULL when the
		// asset has no snapshots
		cols = []string{"date"}
		var max driver.Value
		for _, r := range s.db.rows {
			if r.name == args[0].(string) && (max == nil || r.vals[0].(time.Time).After(max.(time.Time))) {
				max = r.vals[0]
			}
		}
		out = append(out, []driver.Value{max})
	default:
		return nil, fmt.Errorf("unknown query %q", s.q)
	}
	return &memRows{cols, out, 0}, nil
}

type memRows struct {
	cols []string
	data [][]driver.Value
	i    int
}

func (r *memRows) Columns() []string { return r.cols }
func (r *memRows) Close() error      { return nil }
func (r *memRows) Next(dest []driver.Value) error {
	if r.i >= len(r.data) {
		return io.EOF
	}
	copy(dest, r.data[r.i])
	r.i++
	return nil
}

// MemDialect is the dialect matching the in-memory driver.
type MemDialect struct{}

func (MemDialect) CreateTable() string { return "CREATE" }
func (MemDialect) DropTable() string   { return "DROP" }
func (MemDialect) Assets() string      { return "ASSETS" }
func (MemDialect) GetSince() string    { return "GETSINCE" }
func (MemDialect) LastDate() string    { return "LASTDATE" }
func (MemDialect) Append() string      { return "APPEND" }

// MaxDialect is MemDialect whose last-date statement is the aggregate one: an asset without
// snapshots yields one NULL row instead of no row.
type MaxDialect struct{ MemDialect }

// LastDate is the aggregate statement.
func (MaxDialect) LastDate() string { return "LASTDATE_MAX" }
