//go:build !race

package reg

// raceDetector reports whether the binary runs under the race detector. The "reconfigured
// instance" route is left out there: when a composite indicator closes its outputs, upstream
// stages are still being drained in the background, and nothing the caller can observe
// happens-after their last read of the exported fields. The harness waits for them with the
// goroutine census, which is no synchronisation edge for the detector, so the assignment would be
// reported as a race - one made by the caller (the harness), not a property of the library.
const raceDetector = false
