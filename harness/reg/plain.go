package reg

import (
	"github.com/cinar/indicator/v2/momentum"
	"github.com/cinar/indicator/v2/trend"
	"github.com/cinar/indicator/v2/volatility"
	"github.com/cinar/indicator/v2/volume"
)

// plain builds an indicator with its plain constructor (no arguments): the route taken when the
// generated configuration is the default one. A default that lives in two places (the constant and
// the constructor) shows here. (MovingMax/Min/Sum are left out: their plain constructors set no
// period at all and are only usable with a subsequent field assignment, the alt route.) Generated from the Build functions of the registry.
var plain = map[string]func(c Config) (func([]C) []C, int){
	"Apo": func(c Config) (func([]C) []C, int) {
		a := trend.NewApo[float64]()
		return func(in []C) []C { return o1(a.Compute(in[0])) }, declared(a, c.P[1] - 1)
	},
	"Aroon": func(c Config) (func([]C) []C, int) {
		a := trend.NewAroon[float64]()
		return func(in []C) []C { return o2(a.Compute(in[0], in[1])) }, declared(a, c.P[0] - 1)
	},
	"Bop": func(c Config) (func([]C) []C, int) {
		a := trend.NewBop[float64]()
		return func(in []C) []C { return o1(a.Compute(in[0], in[1], in[2], in[3])) }, declared(a, 0)
	},
	"Cci": func(c Config) (func([]C) []C, int) {
		a := trend.NewCci[float64]()
		return func(in []C) []C { return o1(a.Compute(in[0], in[1], in[2])) }, a.IdlePeriod()
	},
	"Dema": func(c Config) (func([]C) []C, int) {
		a := trend.NewDema[float64]()
		return func(in []C) []C { return o1(a.Compute(in[0])) }, a.IdlePeriod()
	},
	"Ema": func(c Config) (func([]C) []C, int) {
		a := trend.NewEma[float64]()
		return func(in []C) []C { return o1(a.Compute(in[0])) }, a.IdlePeriod()
	},
	"EnvelopeSma": func(c Config) (func([]C) []C, int) {
		a := trend.NewEnvelopeWithSma[float64]()
		return func(in []C) []C { return o3(a.Compute(in[0])) }, a.IdlePeriod()
	},
	"EnvelopeEma": func(c Config) (func([]C) []C, int) {
		a := trend.NewEnvelopeWithEma[float64]()
		return func(in []C) []C { return o3(a.Compute(in[0])) }, a.IdlePeriod()
	},
	"Kama": func(c Config) (func([]C) []C, int) {
		a := trend.NewKama[float64]()
		return func(in []C) []C { return o1(a.Compute(in[0])) }, a.IdlePeriod()
	},
	"Kdj": func(c Config) (func([]C) []C, int) {
		a := trend.NewKdj[float64]()
		return func(in []C) []C { return o3(a.Compute(in[0], in[1], in[2])) }, a.IdlePeriod()
	},
	"Macd": func(c Config) (func([]C) []C, int) {
		a := trend.NewMacd[float64]()
		return func(in []C) []C { return o2(a.Compute(in[0])) }, a.IdlePeriod()
	},
	"MassIndex": func(c Config) (func([]C) []C, int) {
		a := trend.NewMassIndex[float64]()
		return func(in []C) []C { return o1(a.Compute(in[0], in[1])) }, a.IdlePeriod()
	},
	"Rma": func(c Config) (func([]C) []C, int) {
		a := trend.NewRma[float64]()
		return func(in []C) []C { return o1(a.Compute(in[0])) }, a.IdlePeriod()
	},
	"Sma": func(c Config) (func([]C) []C, int) {
		a := trend.NewSma[float64]()
		return func(in []C) []C { return o1(a.Compute(in[0])) }, a.IdlePeriod()
	},
	"Smma": func(c Config) (func([]C) []C, int) {
		a := trend.NewSmma[float64]()
		return func(in []C) []C { return o1(a.Compute(in[0])) }, a.IdlePeriod()
	},
	"Tema": func(c Config) (func([]C) []C, int) {
		a := trend.NewTema[float64]()
		return func(in []C) []C { return o1(a.Compute(in[0])) }, a.IdlePeriod()
	},
	"Trima": func(c Config) (func([]C) []C, int) {
		a := trend.NewTrima[float64]()
		return func(in []C) []C { return o1(a.Compute(in[0])) }, a.IdlePeriod()
	},
	"Trix": func(c Config) (func([]C) []C, int) {
		a := trend.NewTrix[float64]()
		return func(in []C) []C { return o1(a.Compute(in[0])) }, a.IdlePeriod()
	},
	"Tsi": func(c Config) (func([]C) []C, int) {
		a := trend.NewTsi[float64]()
		return func(in []C) []C { return o1(a.Compute(in[0])) }, a.IdlePeriod()
	},
	"TypicalPrice": func(c Config) (func([]C) []C, int) {
		a := trend.NewTypicalPrice[float64]()
		return func(in []C) []C { return o1(a.Compute(in[0], in[1], in[2])) }, declared(a, 0)
	},
	"Vwma": func(c Config) (func([]C) []C, int) {
		a := trend.NewVwma[float64]()
		return func(in []C) []C { return o1(a.Compute(in[0], in[1])) }, a.IdlePeriod()
	},
	"WeightedClose": func(c Config) (func([]C) []C, int) {
		a := trend.NewWeightedClose[float64]()
		return func(in []C) []C { return o1(a.Compute(in[0], in[1], in[2])) }, a.IdlePeriod()
	},
	"AwesomeOscillator": func(c Config) (func([]C) []C, int) {
		a := momentum.NewAwesomeOscillator[float64]()
		return func(in []C) []C { return o1(a.Compute(in[0], in[1])) }, a.IdlePeriod()
	},
	"ChaikinOscillator": func(c Config) (func([]C) []C, int) {
		a := momentum.NewChaikinOscillator[float64]()
		return func(in []C) []C { return o2(a.Compute(in[0], in[1], in[2], in[3])) }, a.IdlePeriod()
	},
	"IchimokuCloud": func(c Config) (func([]C) []C, int) {
		a := momentum.NewIchimokuCloud[float64]()
		return func(in []C) []C { return o5(a.Compute(in[0], in[1], in[2])) }, a.IdlePeriod()
	},
	"Ppo": func(c Config) (func([]C) []C, int) {
		a := momentum.NewPpo[float64]()
		return func(in []C) []C { return o3(a.Compute(in[0])) }, a.IdlePeriod()
	},
	"Pvo": func(c Config) (func([]C) []C, int) {
		a := momentum.NewPvo[float64]()
		return func(in []C) []C { return o3(a.Compute(in[0])) }, a.IdlePeriod()
	},
	"Qstick": func(c Config) (func([]C) []C, int) {
		a := momentum.NewQstick[float64]()
		return func(in []C) []C { return o1(a.Compute(in[0], in[1])) }, a.IdlePeriod()
	},
	"Rsi": func(c Config) (func([]C) []C, int) {
		a := momentum.NewRsi[float64]()
		return func(in []C) []C { return o1(a.Compute(in[0])) }, a.IdlePeriod()
	},
	"StochasticOscillator": func(c Config) (func([]C) []C, int) {
		a := momentum.NewStochasticOscillator[float64]()
		return func(in []C) []C { return o2(a.Compute(in[0], in[1], in[2])) }, a.IdlePeriod()
	},
	"StochasticRsi": func(c Config) (func([]C) []C, int) {
		a := momentum.NewStochasticRsi[float64]()
		return func(in []C) []C { return o1(a.Compute(in[0])) }, a.IdlePeriod()
	},
	"WilliamsR": func(c Config) (func([]C) []C, int) {
		a := momentum.NewWilliamsR[float64]()
		return func(in []C) []C { return o1(a.Compute(in[0], in[1], in[2])) }, a.IdlePeriod()
	},
	"AccelerationBands": func(c Config) (func([]C) []C, int) {
		a := volatility.NewAccelerationBands[float64]()
		return func(in []C) []C { return o3(a.Compute(in[0], in[1], in[2])) }, a.IdlePeriod()
	},
	"Atr": func(c Config) (func([]C) []C, int) {
		a := volatility.NewAtr[float64]()
		return func(in []C) []C { return o1(a.Compute(in[0], in[1], in[2])) }, a.IdlePeriod()
	},
	"BollingerBandWidth": func(c Config) (func([]C) []C, int) {
		a := volatility.NewBollingerBandWidth[float64]()
		return func(in []C) []C { return o1(a.Compute(in[0])) }, a.IdlePeriod()
	},
	"BollingerBands": func(c Config) (func([]C) []C, int) {
		a := volatility.NewBollingerBands[float64]()
		return func(in []C) []C { return o3(a.Compute(in[0])) }, a.IdlePeriod()
	},
	"ChandelierExit": func(c Config) (func([]C) []C, int) {
		a := volatility.NewChandelierExit[float64]()
		return func(in []C) []C { return o2(a.Compute(in[0], in[1], in[2])) }, a.IdlePeriod()
	},
	"DonchianChannel": func(c Config) (func([]C) []C, int) {
		a := volatility.NewDonchianChannel[float64]()
		return func(in []C) []C { return o3(a.Compute(in[0])) }, a.IdlePeriod()
	},
	"KeltnerChannel": func(c Config) (func([]C) []C, int) {
		a := volatility.NewKeltnerChannel[float64]()
		return func(in []C) []C { return o3(a.Compute(in[0], in[1], in[2])) }, a.IdlePeriod()
	},
	"MovingStd": func(c Config) (func([]C) []C, int) {
		a := volatility.NewMovingStd[float64]()
		return func(in []C) []C { return o1(a.Compute(in[0])) }, a.IdlePeriod()
	},
	"PercentB": func(c Config) (func([]C) []C, int) {
		a := volatility.NewPercentB[float64]()
		return func(in []C) []C { return o1(a.Compute(in[0])) }, a.IdlePeriod()
	},
	"Po": func(c Config) (func([]C) []C, int) {
		a := volatility.NewPo[float64]()
		return func(in []C) []C { return o1(a.Compute(in[0], in[1], in[2])) }, a.IdlePeriod()
	},
	"SuperTrendHma": func(c Config) (func([]C) []C, int) {
		a := volatility.NewSuperTrend[float64]()
		return func(in []C) []C { return o1(a.Compute(in[0], in[1], in[2])) }, a.IdlePeriod()
	},
	"UlcerIndex": func(c Config) (func([]C) []C, int) {
		a := volatility.NewUlcerIndex[float64]()
		return func(in []C) []C { return o1(a.Compute(in[0])) }, a.IdlePeriod()
	},
	"Ad": func(c Config) (func([]C) []C, int) {
		a := volume.NewAd[float64]()
		return func(in []C) []C { return o1(a.Compute(in[0], in[1], in[2], in[3])) }, a.IdlePeriod()
	},
	"Cmf": func(c Config) (func([]C) []C, int) {
		a := volume.NewCmf[float64]()
		return func(in []C) []C { return o1(a.Compute(in[0], in[1], in[2], in[3])) }, a.IdlePeriod()
	},
	"Emv": func(c Config) (func([]C) []C, int) {
		a := volume.NewEmv[float64]()
		return func(in []C) []C { return o1(a.Compute(in[0], in[1], in[2])) }, a.IdlePeriod()
	},
	"Fi": func(c Config) (func([]C) []C, int) {
		a := volume.NewFi[float64]()
		return func(in []C) []C { return o1(a.Compute(in[0], in[1])) }, a.IdlePeriod()
	},
	"Mfi": func(c Config) (func([]C) []C, int) {
		a := volume.NewMfi[float64]()
		return func(in []C) []C { return o1(a.Compute(in[0], in[1], in[2], in[3])) }, a.IdlePeriod()
	},
	"Mfm": func(c Config) (func([]C) []C, int) {
		a := volume.NewMfm[float64]()
		return func(in []C) []C { return o1(a.Compute(in[0], in[1], in[2])) }, a.IdlePeriod()
	},
	"Mfv": func(c Config) (func([]C) []C, int) {
		a := volume.NewMfv[float64]()
		return func(in []C) []C { return o1(a.Compute(in[0], in[1], in[2], in[3])) }, a.IdlePeriod()
	},
	"Nvi": func(c Config) (func([]C) []C, int) {
		a := volume.NewNvi[float64]()
		return func(in []C) []C { return o1(a.Compute(in[0], in[1])) }, a.IdlePeriod()
	},
	"Obv": func(c Config) (func([]C) []C, int) {
		a := volume.NewObv[float64]()
		return func(in []C) []C { return o1(a.Compute(in[0], in[1])) }, a.IdlePeriod()
	},
	"Vpt": func(c Config) (func([]C) []C, int) {
		a := volume.NewVpt[float64]()
		return func(in []C) []C { return o1(a.Compute(in[0], in[1])) }, a.IdlePeriod()
	},
	"Vwap": func(c Config) (func([]C) []C, int) {
		a := volume.NewVwap[float64]()
		return func(in []C) []C { return o1(a.Compute(in[0], in[1])) }, a.IdlePeriod()
	},
}
