package reg

import (
	"github.com/cinar/indicator/v2/momentum"
	"github.com/cinar/indicator/v2/trend"
	"github.com/cinar/indicator/v2/volatility"
	"github.com/cinar/indicator/v2/volume"
)

// Field routes generated from the registry Build functions that already have the shape
// "argument-less constructor, then assign exported fields": the same instance can be configured,
// run, re-configured and run again (reg.Config.PrevP). See alt.go for the hand-written ones.
func init() {
	for k, v := range altGen {
		if _, ok := alt[k]; !ok {
			alt[k] = v
		}
	}
}

var altGen = map[string]func() altInst{
	"Apo": func() altInst {
		a := trend.NewApo[float64]()
		var cur Config
		return altInst{func(c Config) {
			cur = c
			a.FastPeriod, a.SlowPeriod = c.P[0], c.P[1]
		}, func(in []C) []C { return o1(a.Compute(in[0])) }, func() int { c := cur; return declared(a, c.P[1]-1) }}
	},
	"Aroon": func() altInst {
		a := trend.NewAroon[float64]()
		var cur Config
		return altInst{func(c Config) {
			cur = c
			a.Period = c.P[0]
		}, func(in []C) []C { return o2(a.Compute(in[0], in[1])) }, func() int { c := cur; return declared(a, c.P[0]-1) }}
	},
	"Dema": func() altInst {
		a := trend.NewDema[float64]()
		return altInst{func(c Config) {
			a.Ema1.Period, a.Ema2.Period = c.P[0], c.P[1]
		}, func(in []C) []C { return o1(a.Compute(in[0])) }, func() int { return a.IdlePeriod() }}
	},
	"Kdj": func() altInst {
		a := trend.NewKdj[float64]()
		return altInst{func(c Config) {
			a.MovingMax.Period, a.MovingMin.Period, a.Sma1.Period, a.Sma2.Period = c.P[0], c.P[0], c.P[1], c.P[2]
		}, func(in []C) []C { return o3(a.Compute(in[0], in[1], in[2])) }, func() int { return a.IdlePeriod() }}
	},
	"MassIndex": func() altInst {
		a := trend.NewMassIndex[float64]()
		return altInst{func(c Config) {
			a.Ema1.Period, a.Ema2.Period, a.MovingSum.Period = c.P[0], c.P[1], c.P[2]
			if len(c.S) > 0 {
				a.Ema1.Smoothing, a.Ema2.Smoothing = c.Sm(0), c.Sm(1)
			}
		}, func(in []C) []C { return o1(a.Compute(in[0], in[1])) }, func() int { return a.IdlePeriod() }}
	},
	"Tema": func() altInst {
		a := trend.NewTema[float64]()
		return altInst{func(c Config) {
			a.Ema1.Period, a.Ema2.Period, a.Ema3.Period = c.P[0], c.P[1], c.P[2]
			if len(c.S) > 0 {
				a.Ema1.Smoothing, a.Ema2.Smoothing, a.Ema3.Smoothing = c.Sm(0), c.Sm(1), c.Sm(2)
			}
		}, func(in []C) []C { return o1(a.Compute(in[0])) }, func() int { return a.IdlePeriod() }}
	},
	"Trima": func() altInst {
		a := trend.NewTrima[float64]()
		return altInst{func(c Config) {
			a.Period = c.P[0]
		}, func(in []C) []C { return o1(a.Compute(in[0])) }, func() int { return a.IdlePeriod() }}
	},
	"Trix": func() altInst {
		a := trend.NewTrix[float64]()
		return altInst{func(c Config) {
			a.Period = c.P[0]
		}, func(in []C) []C { return o1(a.Compute(in[0])) }, func() int { return a.IdlePeriod() }}
	},
	"Vwma": func() altInst {
		a := trend.NewVwma[float64]()
		return altInst{func(c Config) {
			a.Period = c.P[0]
		}, func(in []C) []C { return o1(a.Compute(in[0], in[1])) }, func() int { return a.IdlePeriod() }}
	},
	"AwesomeOscillator": func() altInst {
		a := momentum.NewAwesomeOscillator[float64]()
		return altInst{func(c Config) {
			a.ShortSma.Period, a.LongSma.Period = c.P[0], c.P[1]
		}, func(in []C) []C { return o1(a.Compute(in[0], in[1])) }, func() int { return a.IdlePeriod() }}
	},
	"ChaikinOscillator": func() altInst {
		a := momentum.NewChaikinOscillator[float64]()
		return altInst{func(c Config) {
			a.ShortEma.Period, a.LongEma.Period = c.P[0], c.P[1]
			if len(c.S) > 0 {
				a.ShortEma.Smoothing, a.LongEma.Smoothing = c.Sm(0), c.Sm(1)
			}
		}, func(in []C) []C { return o2(a.Compute(in[0], in[1], in[2], in[3])) }, func() int { return a.IdlePeriod() }}
	},
	"IchimokuCloud": func() altInst {
		a := momentum.NewIchimokuCloud[float64]()
		return altInst{func(c Config) {
			a.ConversionMax.Period, a.ConversionMin.Period = c.P[0], c.P[0]
			a.BaseMax.Period, a.BaseMin.Period = c.P[1], c.P[1]
			a.LeadingMax.Period, a.LeadingMin.Period = c.P[2], c.P[2]
			a.LaggingPeriod = c.P[3]
		}, func(in []C) []C { return o5(a.Compute(in[0], in[1], in[2])) }, func() int { return a.IdlePeriod() }}
	},
	"Ppo": func() altInst {
		a := momentum.NewPpo[float64]()
		return altInst{func(c Config) {
			a.ShortEma.Period, a.LongEma.Period, a.SignalEma.Period = c.P[0], c.P[1], c.P[2]
			if len(c.S) > 0 {
				a.ShortEma.Smoothing, a.LongEma.Smoothing, a.SignalEma.Smoothing = c.Sm(0), c.Sm(1), c.Sm(2)
			}
		}, func(in []C) []C { return o3(a.Compute(in[0])) }, func() int { return a.IdlePeriod() }}
	},
	"Pvo": func() altInst {
		a := momentum.NewPvo[float64]()
		return altInst{func(c Config) {
			a.ShortEma.Period, a.LongEma.Period, a.SignalEma.Period = c.P[0], c.P[1], c.P[2]
			if len(c.S) > 0 {
				a.ShortEma.Smoothing, a.LongEma.Smoothing, a.SignalEma.Smoothing = c.Sm(0), c.Sm(1), c.Sm(2)
			}
		}, func(in []C) []C { return o3(a.Compute(in[0])) }, func() int { return a.IdlePeriod() }}
	},
	"Qstick": func() altInst {
		a := momentum.NewQstick[float64]()
		return altInst{func(c Config) {
			a.Sma.Period = c.P[0]
		}, func(in []C) []C { return o1(a.Compute(in[0], in[1])) }, func() int { return a.IdlePeriod() }}
	},
	"StochasticOscillator": func() altInst {
		a := momentum.NewStochasticOscillator[float64]()
		return altInst{func(c Config) {
			a.Max.Period, a.Min.Period, a.Sma.Period = c.P[0], c.P[0], c.P[1]
		}, func(in []C) []C { return o2(a.Compute(in[0], in[1], in[2])) }, func() int { return a.IdlePeriod() }}
	},
	"WilliamsR": func() altInst {
		a := momentum.NewWilliamsR[float64]()
		return altInst{func(c Config) {
			a.Max.Period, a.Min.Period = c.P[0], c.P[0]
		}, func(in []C) []C { return o1(a.Compute(in[0], in[1], in[2])) }, func() int { return a.IdlePeriod() }}
	},
	"AccelerationBands": func() altInst {
		a := volatility.NewAccelerationBands[float64]()
		return altInst{func(c Config) {
			a.Period = c.P[0]
		}, func(in []C) []C { return o3(a.Compute(in[0], in[1], in[2])) }, func() int { return a.IdlePeriod() }}
	},
	"BollingerBandWidth": func() altInst {
		a := volatility.NewBollingerBandWidth[float64]()
		return altInst{func(c Config) {
			a.BollingerBands.Period = c.P[0]
		}, func(in []C) []C { return o1(a.Compute(in[0])) }, func() int { return a.IdlePeriod() }}
	},
	"ChandelierExit": func() altInst {
		a := volatility.NewChandelierExit[float64]()
		return altInst{func(c Config) {
			a.Period, a.Multiplier = c.P[0], c.F[0]
		}, func(in []C) []C { return o2(a.Compute(in[0], in[1], in[2])) }, func() int { return a.IdlePeriod() }}
	},
	"UlcerIndex": func() altInst {
		a := volatility.NewUlcerIndex[float64]()
		return altInst{func(c Config) {
			a.Period = c.P[0]
		}, func(in []C) []C { return o1(a.Compute(in[0])) }, func() int { return a.IdlePeriod() }}
	},
	"Mfi": func() altInst {
		a := volume.NewMfi[float64]()
		return altInst{func(c Config) {
			a.Sum.Period = c.P[0]
		}, func(in []C) []C { return o1(a.Compute(in[0], in[1], in[2], in[3])) }, func() int { return a.IdlePeriod() }}
	},
	"Nvi": func() altInst {
		a := volume.NewNvi[float64]()
		return altInst{func(c Config) {
			a.Initial = c.F[0]
		}, func(in []C) []C { return o1(a.Compute(in[0], in[1])) }, func() int { return a.IdlePeriod() }}
	},
}
