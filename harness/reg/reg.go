// Package reg is the registry of indicators: how to build each one from a generated
// configuration, what it consumes, its declared idle period, the reference model written from its
// doc comment, the executable model of any recorded defect, homogeneity degrees and range claims.
package reg

import (
	"fmt"
	"runtime"
	"sync/atomic"

	"github.com/cinar/indicator/v2/helper"

	"pgregory.net/rapid"
	"verif/harness/census"
	"verif/harness/ref"
)

// C is the channel type of every float64 pipeline.
type C = <-chan float64

// Input field names.
const (
	Open   = "open"
	High   = "high"
	Low    = "low"
	Close  = "close"
	Volume = "volume"
	X      = "x" // free numeric series (may hold zeros and negatives)
	Y      = "y"
)

// Param describes one integer period parameter.
type Param struct {
	Name    string
	Default int
}

// Config is a generated configuration: integer periods and float extras (multipliers, percentages).
type Config struct {
	P []int     `json:"p"`
	F []float64 `json:"f,omitempty"`
	// Alt selects the "plain constructor, then assign the exported fields" route where the
	// registry knows one (reg/alt.go).
	Alt bool `json:"alt,omitempty"`
	// PrevP / PrevF / PrevN (Alt route only): the instance was first configured with PrevP /
	// PrevF and ran one Compute over PrevN canned values before the exported fields were
	// assigned to P / F - an instance that is reconfigured between two computations, which the
	// exported fields invite. Anything Compute caches on the receiver shows here.
	// S: smoothing constants assigned to the nested EMA instances of a composite indicator through
	// their exported fields, in order of appearance (empty: the constructors' 2).
	S []float64 `json:"s,omitempty"`
	// Plain: built with the argument-less constructor (P and F are the documented defaults).
	Plain bool      `json:"plain,omitempty"`
	PrevP []int     `json:"prev_p,omitempty"`
	PrevF []float64 `json:"prev_f,omitempty"`
	PrevN int       `json:"prev_n,omitempty"`
}

func (c Config) String() string {
	if c.PrevP != nil {
		return fmt.Sprintf("p=%v f=%v (reconfigured from p=%v f=%v after %d values)", c.P, c.F, c.PrevP, c.PrevF, c.PrevN)
	}
	if len(c.S) > 0 {
		return fmt.Sprintf("p=%v f=%v nested smoothing=%v", c.P, c.F, c.S)
	}
	return fmt.Sprintf("p=%v f=%v", c.P, c.F)
}

// Sm is the smoothing constant of the i-th nested EMA.
func (c Config) Sm(i int) float64 {
	if i < len(c.S) {
		return c.S[i]
	}
	return 2
}

// In maps an input field name to its reference series.
type In map[string]ref.S

// Defect is an executable model of a recorded wrong behaviour.
type Defect struct {
	Key   string // known-finding key: <Indicator>/<model>
	Model func(c Config, in In) []ref.S
}

// NA marks an output for which a homogeneity degree is not claimed.
const NA = 99

// Ind is one registry entry.
type Ind struct {
	Name   string
	Inputs []string
	Params []Param
	// FParams are float parameters with their defaults (multiplier, percentage).
	FParams []float64
	// Fix moves a drawn configuration into the admissible region (ordering constraints).
	Fix  func(c *Config)
	Outs []string
	// Build returns the runner and the declared idle period (IdlePeriod(), or the warm-up the
	// formula implies for the few types without that method).
	Build func(c Config) (run func(in []C) []C, idle int)
	// Ref is the documented formula over absolute positions, one series per output.
	Ref func(c Config, in In) []ref.S
	// Alt is a second acceptable reading of the doc comment (used where it leaves a seed open).
	Alt func(c Config, in In) []ref.S
	// Doc quotes the doc comment the reference was written from, and the reading chosen where it
	// is silent.
	Doc    string
	Defect *Defect
	// PriceDeg / VolDeg: homogeneity degree of each output in price and in volume (NA = not claimed).
	PriceDeg []int
	VolDeg   []int
	// Window says that output k depends on input position k+idle (dependence frontier of C02).
	Window bool
	// Recursive says that an ill-conditioned position contaminates all later ones.
	Recursive bool
	// ZeroF: the float parameters may be 0 (the formula is defined there: an EMA whose smoothing
	// constant is 0 stays at its initial average).
	ZeroF bool
	// NS is the number of nested EMA instances whose Smoothing field is exported (Config.S).
	NS int
}

func ints(n, v int) []int {
	out := make([]int, n)
	for i := range out {
		out[i] = v
	}
	return out
}

// GenPeriod draws a period: 1..8 in ~70 % of the draws (an off-by-one in a Skip/Shift amount is
// wrong for every period and small periods keep cases cheap), 9..30 in ~20 %, and up to three
// times the parameter's default (capped at 90) in ~10 % - beyond the default, where a constant
// that merely equals the right amount at the default configuration stops working.
func GenPeriod(t *rapid.T, p Param) int {
	k := rapid.IntRange(0, 9).Draw(t, p.Name+"_class")
	switch {
	case k < 7:
		return rapid.IntRange(1, 8).Draw(t, p.Name)
	case k < 9:
		return rapid.IntRange(9, 30).Draw(t, p.Name)
	}
	hi := 3 * p.Default
	if hi > 90 {
		hi = 90
	}
	if hi < 31 {
		hi = 31
	}
	return rapid.IntRange(1, hi).Draw(t, p.Name)
}

// GenConfig draws an admissible configuration; small restricts periods to 1..maxSmall.
func (ind Ind) GenConfig(t *rapid.T, maxSmall int) Config {
	if _, ok := plain[ind.Name]; ok && rapid.IntRange(0, 24).Draw(t, "plain_ctor") == 0 {
		// the plain constructor: every parameter at its documented default
		c := ind.DefaultConfig()
		c.Plain = true
		return c
	}
	c := ind.genPF(t, maxSmall)
	if ind.NS > 0 && rapid.IntRange(0, 3).Draw(t, "nested_smoothing") == 0 {
		for i := 0; i < ind.NS; i++ {
			c.S = append(c.S, float64(rapid.IntRange(1, 12).Draw(t, fmt.Sprintf("s%d", i)))/4)
		}
	}
	if _, ok := alt[ind.Name]; ok && rapid.IntRange(0, 2).Draw(t, "field_route") == 0 {
		c.Alt = true
		if rapid.Bool().Draw(t, "reconfigured") {
			prev := ind.genPF(t, maxSmall)
			c.PrevP, c.PrevF = prev.P, prev.F
			c.PrevN = rapid.IntRange(0, 40).Draw(t, "prev_n")
		}
	}
	return c
}

func (ind Ind) genPF(t *rapid.T, maxSmall int) Config {
	c := Config{P: make([]int, len(ind.Params))}
	if len(ind.Params) > 0 && rapid.IntRange(0, 19).Draw(t, "default_cfg") == 0 {
		for i, p := range ind.Params {
			c.P[i] = p.Default
		}
	} else {
		for i, p := range ind.Params {
			if maxSmall > 0 {
				c.P[i] = rapid.IntRange(1, maxSmall).Draw(t, p.Name)
			} else {
				c.P[i] = GenPeriod(t, p)
			}
		}
	}
	for i, d := range ind.FParams {
		// multipliers / percentages: dyadic values around the default, > 0
		k := rapid.IntRange(1, 24).Draw(t, fmt.Sprintf("f%d", i))
		if ind.ZeroF && rapid.IntRange(0, 9).Draw(t, "zero_f") == 4 {
			k = 0 // the zero value of the field (a struct literal leaves it at that)
		}
		c.F = append(c.F, d*float64(k)/8)
	}
	if ind.Fix != nil {
		ind.Fix(&c)
	}
	return c
}

// GenConfigAny is GenConfig, except that in a quarter of the draws the documented ordering
// constraints (fast <= slow ...) are NOT imposed: for the properties that quantify over ALL
// configurations (termination, no look-ahead, reuse, unit independence) rather than over the
// admissible ones.
func (ind Ind) GenConfigAny(t *rapid.T, maxSmall int) Config {
	if ind.Fix == nil || rapid.IntRange(0, 3).Draw(t, "unordered") != 0 {
		return ind.GenConfig(t, maxSmall)
	}
	fix := ind.Fix
	ind.Fix = nil
	c := ind.GenConfig(t, maxSmall)
	ind.Fix = fix
	return c
}

// DefaultConfig is the configuration of the plain constructor.
func (ind Ind) DefaultConfig() Config {
	c := Config{}
	for _, p := range ind.Params {
		c.P = append(c.P, p.Default)
	}
	c.F = append(c.F, ind.FParams...)
	if ind.Fix != nil {
		ind.Fix(&c)
	}
	return c
}

func sort2(a, b *int) {
	if *a > *b {
		*a, *b = *b, *a
	}
}

func o1(c C) []C             { return []C{c} }
func o2(a, b C) []C          { return []C{a, b} }
func o3(a, b, c C) []C       { return []C{a, b, c} }
func o5(a, b, c, d, e C) []C { return []C{a, b, c, d, e} }

// ByName finds an entry.
func ByName(name string) (Ind, bool) {
	for _, i := range All() {
		if i.Name == name {
			return i, true
		}
	}
	return Ind{}, false
}

// declared is the idle period an indicator declares: its IdlePeriod method where the type has
// one, else the period its formula implies (the few types without such a method; the day one of
// them grows the method, the method is what callers align by).
func declared(a any, implied int) int {
	if d, ok := a.(interface{ IdlePeriod() int }); ok {
		return d.IdlePeriod()
	}
	return implied
}

// warm runs one complete computation over n canned values on every input, discards the result and
// waits until the goroutines of that pipeline are gone: closing of the outputs does not mean that
// the upstream stages have finished (they are drained in the background), and assigning the
// exported fields while they still read them would be the caller's data race, not the library's.
func warm(compute func([]C) []C, nin, n int) {
	base := census.Baseline()
	ins := make([]C, nin)
	for i := range ins {
		vals := make([]float64, n)
		for j := range vals {
			vals[j] = 10 + float64((j*7+i*3)%11)/2
		}
		ins[i] = helper.SliceToChan(vals)
	}
	outs := compute(ins)
	var left int32 = int32(len(outs))
	for _, o := range outs {
		go func(o C) { helper.Drain(o); atomic.AddInt32(&left, -1) }(o)
	}
	// wait with the census, never with a blocking call: a first computation that hangs (or leaves
	// goroutines behind) is left as it is - the census of the case that follows reports it
	for spin := 0; ; spin++ {
		if atomic.LoadInt32(&left) == 0 {
			if v, _ := base.Verdict(); v == census.None {
				return
			}
		}
		if spin > 2000 {
			if stuck, _ := base.StableStuck(); stuck {
				return
			}
		}
		runtime.Gosched()
	}
}

// All returns every registry entry.
func All() []Ind {
	var out []Ind
	out = append(out, trendInds()...)
	out = append(out, momentumInds()...)
	out = append(out, volatilityInds()...)
	out = append(out, volumeInds()...)
	for i := range out {
		name := out[i].Name
		a, hasAlt := alt[name]
		pl, hasPlain := plain[name]
		if !hasAlt && !hasPlain {
			continue
		}
		ctor := out[i].Build
		nin := len(out[i].Inputs)
		out[i].Build = func(c Config) (func([]C) []C, int) {
			if c.Plain && hasPlain {
				return pl(c)
			}
			if c.Alt && hasAlt {
				inst := a()
				if c.PrevP != nil && !raceDetector {
					inst.set(Config{P: c.PrevP, F: c.PrevF})
					warm(inst.compute, nin, c.PrevN)
				}
				inst.set(c)
				return inst.compute, inst.idle()
			}
			return ctor(c)
		}
	}
	return out
}
