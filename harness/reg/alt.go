package reg

import (
	"github.com/cinar/indicator/v2/momentum"
	"github.com/cinar/indicator/v2/trend"
	"github.com/cinar/indicator/v2/volatility"
	"github.com/cinar/indicator/v2/volume"
)

// alt holds a second way of reaching the same configuration: construct with the plain
// constructor (defaults) and then assign the exported period fields, which is how the library's
// own code and tests configure many indicators. A constructor that caches something derived from
// its arguments behaves differently on the two routes.
var alt = map[string]func(c Config) (func([]C) []C, int){
	"Cci": func(c Config) (func([]C) []C, int) {
		a := trend.NewCci[float64]()
		a.Period = c.P[0]
		return func(in []C) []C { return o1(a.Compute(in[0], in[1], in[2])) }, a.IdlePeriod()
	},
	"Ema": func(c Config) (func([]C) []C, int) {
		a := trend.NewEma[float64]()
		a.Period, a.Smoothing = c.P[0], c.F[0]
		return func(in []C) []C { return o1(a.Compute(in[0])) }, a.IdlePeriod()
	},
	"Kama": func(c Config) (func([]C) []C, int) {
		a := trend.NewKama[float64]()
		a.ErPeriod, a.FastScPeriod, a.SlowScPeriod = c.P[0], c.P[1], c.P[2]
		return func(in []C) []C { return o1(a.Compute(in[0])) }, a.IdlePeriod()
	},
	"Macd": func(c Config) (func([]C) []C, int) {
		a := trend.NewMacd[float64]()
		a.Ema1.Period, a.Ema2.Period, a.Ema3.Period = c.P[0], c.P[1], c.P[2]
		return func(in []C) []C { return o2(a.Compute(in[0])) }, a.IdlePeriod()
	},
	"Mls": func(c Config) (func([]C) []C, int) {
		a := trend.NewMlsWithPeriod[float64](7)
		a.Sum.Period = c.P[0]
		return func(in []C) []C { return o2(a.Compute(in[0], in[1])) }, a.IdlePeriod()
	},
	"Mlr": func(c Config) (func([]C) []C, int) {
		a := trend.NewMlrWithPeriod[float64](7)
		a.Mls.Sum.Period = c.P[0]
		return func(in []C) []C { return o1(a.Compute(in[0], in[1])) }, a.IdlePeriod()
	},
	"MovingMax": func(c Config) (func([]C) []C, int) {
		a := trend.NewMovingMax[float64]()
		a.Period = c.P[0]
		return func(in []C) []C { return o1(a.Compute(in[0])) }, a.IdlePeriod()
	},
	"MovingMin": func(c Config) (func([]C) []C, int) {
		a := trend.NewMovingMin[float64]()
		a.Period = c.P[0]
		return func(in []C) []C { return o1(a.Compute(in[0])) }, a.IdlePeriod()
	},
	"MovingSum": func(c Config) (func([]C) []C, int) {
		a := trend.NewMovingSum[float64]()
		a.Period = c.P[0]
		return func(in []C) []C { return o1(a.Compute(in[0])) }, a.IdlePeriod()
	},
	"Rma": func(c Config) (func([]C) []C, int) {
		a := trend.NewRma[float64]()
		a.Period = c.P[0]
		return func(in []C) []C { return o1(a.Compute(in[0])) }, a.IdlePeriod()
	},
	"Sma": func(c Config) (func([]C) []C, int) {
		a := trend.NewSma[float64]()
		a.Period = c.P[0]
		return func(in []C) []C { return o1(a.Compute(in[0])) }, a.IdlePeriod()
	},
	"Smma": func(c Config) (func([]C) []C, int) {
		a := trend.NewSmma[float64]()
		a.Period = c.P[0]
		return func(in []C) []C { return o1(a.Compute(in[0])) }, a.IdlePeriod()
	},
	"Tsi": func(c Config) (func([]C) []C, int) {
		a := trend.NewTsi[float64]()
		a.FirstSmoothing.(*trend.Ema[float64]).Period = c.P[0]
		a.SecondSmoothing.(*trend.Ema[float64]).Period = c.P[1]
		return func(in []C) []C { return o1(a.Compute(in[0])) }, a.IdlePeriod()
	},
	"Wma": func(c Config) (func([]C) []C, int) {
		a := trend.NewWmaWith[float64](3)
		a.Period = c.P[0]
		return func(in []C) []C { return o1(a.Compute(in[0])) }, a.IdlePeriod()
	},
	"Rsi": func(c Config) (func([]C) []C, int) {
		a := momentum.NewRsi[float64]()
		a.Rma.Period = c.P[0]
		return func(in []C) []C { return o1(a.Compute(in[0])) }, a.IdlePeriod()
	},
	"Atr": func(c Config) (func([]C) []C, int) {
		a := volatility.NewAtr[float64]()
		a.Ma.(*trend.Sma[float64]).Period = c.P[0]
		return func(in []C) []C { return o1(a.Compute(in[0], in[1], in[2])) }, a.IdlePeriod()
	},
	"BollingerBands": func(c Config) (func([]C) []C, int) {
		a := volatility.NewBollingerBands[float64]()
		a.Period = c.P[0]
		return func(in []C) []C { return o3(a.Compute(in[0])) }, a.IdlePeriod()
	},
	"DonchianChannel": func(c Config) (func([]C) []C, int) {
		a := volatility.NewDonchianChannel[float64]()
		a.Max.Period, a.Min.Period = c.P[0], c.P[0]
		return func(in []C) []C { return o3(a.Compute(in[0])) }, a.IdlePeriod()
	},
	"MovingStd": func(c Config) (func([]C) []C, int) {
		a := volatility.NewMovingStd[float64]()
		a.Period = c.P[0]
		return func(in []C) []C { return o1(a.Compute(in[0])) }, a.IdlePeriod()
	},
	"PercentB": func(c Config) (func([]C) []C, int) {
		a := volatility.NewPercentB[float64]()
		a.BollingerBands.Period = c.P[0]
		return func(in []C) []C { return o1(a.Compute(in[0])) }, a.IdlePeriod()
	},
	"Cmf": func(c Config) (func([]C) []C, int) {
		a := volume.NewCmf[float64]()
		a.Sum.Period = c.P[0]
		return func(in []C) []C { return o1(a.Compute(in[0], in[1], in[2], in[3])) }, a.IdlePeriod()
	},
	"Emv": func(c Config) (func([]C) []C, int) {
		a := volume.NewEmv[float64]()
		a.Sma.Period = c.P[0]
		return func(in []C) []C { return o1(a.Compute(in[0], in[1], in[2])) }, a.IdlePeriod()
	},
	"Fi": func(c Config) (func([]C) []C, int) {
		a := volume.NewFi[float64]()
		a.Ema.Period = c.P[0]
		return func(in []C) []C { return o1(a.Compute(in[0], in[1])) }, a.IdlePeriod()
	},
	"Vwap": func(c Config) (func([]C) []C, int) {
		a := volume.NewVwap[float64]()
		a.Sum.Period = c.P[0]
		return func(in []C) []C { return o1(a.Compute(in[0], in[1])) }, a.IdlePeriod()
	},
}
