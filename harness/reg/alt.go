package reg

import (
	"github.com/cinar/indicator/v2/momentum"
	"github.com/cinar/indicator/v2/trend"
	"github.com/cinar/indicator/v2/volatility"
	"github.com/cinar/indicator/v2/volume"
)

// alt holds a second way of reaching the same configuration: construct with the plain
// constructor (defaults) and then assign the exported period fields, which is how the library's
// own code and tests configure many indicators. A constructor that caches something derived from
// its arguments behaves differently on the two routes.
type altInst struct {
	set     func(c Config)
	compute func(in []C) []C
	idle    func() int
}

var alt = map[string]func() altInst{
	"Cci": func() altInst {
		a := trend.NewCci[float64]()
		return altInst{func(c Config) {
			a.Period = c.P[0]
		}, func(in []C) []C { return o1(a.Compute(in[0], in[1], in[2])) }, a.IdlePeriod}
	},
	"Ema": func() altInst {
		a := trend.NewEma[float64]()
		return altInst{func(c Config) {
			a.Period, a.Smoothing = c.P[0], c.F[0]
		}, func(in []C) []C { return o1(a.Compute(in[0])) }, a.IdlePeriod}
	},
	"Kama": func() altInst {
		a := trend.NewKama[float64]()
		return altInst{func(c Config) {
			a.ErPeriod, a.FastScPeriod, a.SlowScPeriod = c.P[0], c.P[1], c.P[2]
		}, func(in []C) []C { return o1(a.Compute(in[0])) }, a.IdlePeriod}
	},
	"Macd": func() altInst {
		a := trend.NewMacd[float64]()
		return altInst{func(c Config) {
			a.Ema1.Period, a.Ema2.Period, a.Ema3.Period = c.P[0], c.P[1], c.P[2]
			a.Ema1.Smoothing, a.Ema2.Smoothing, a.Ema3.Smoothing = c.Sm(0), c.Sm(1), c.Sm(2)
		}, func(in []C) []C { return o2(a.Compute(in[0])) }, a.IdlePeriod}
	},
	"Mls": func() altInst {
		a := trend.NewMlsWithPeriod[float64](7)
		return altInst{func(c Config) {
			a.Sum.Period = c.P[0]
		}, func(in []C) []C { return o2(a.Compute(in[0], in[1])) }, a.IdlePeriod}
	},
	"Mlr": func() altInst {
		a := trend.NewMlrWithPeriod[float64](7)
		return altInst{func(c Config) {
			a.Mls.Sum.Period = c.P[0]
		}, func(in []C) []C { return o1(a.Compute(in[0], in[1])) }, a.IdlePeriod}
	},
	"MovingMax": func() altInst {
		a := trend.NewMovingMax[float64]()
		return altInst{func(c Config) {
			a.Period = c.P[0]
		}, func(in []C) []C { return o1(a.Compute(in[0])) }, a.IdlePeriod}
	},
	"MovingMin": func() altInst {
		a := trend.NewMovingMin[float64]()
		return altInst{func(c Config) {
			a.Period = c.P[0]
		}, func(in []C) []C { return o1(a.Compute(in[0])) }, a.IdlePeriod}
	},
	"MovingSum": func() altInst {
		a := trend.NewMovingSum[float64]()
		return altInst{func(c Config) {
			a.Period = c.P[0]
		}, func(in []C) []C { return o1(a.Compute(in[0])) }, a.IdlePeriod}
	},
	"Rma": func() altInst {
		a := trend.NewRma[float64]()
		return altInst{func(c Config) {
			a.Period = c.P[0]
		}, func(in []C) []C { return o1(a.Compute(in[0])) }, a.IdlePeriod}
	},
	"Sma": func() altInst {
		a := trend.NewSma[float64]()
		return altInst{func(c Config) {
			a.Period = c.P[0]
		}, func(in []C) []C { return o1(a.Compute(in[0])) }, a.IdlePeriod}
	},
	"Smma": func() altInst {
		a := trend.NewSmma[float64]()
		return altInst{func(c Config) {
			a.Period = c.P[0]
		}, func(in []C) []C { return o1(a.Compute(in[0])) }, a.IdlePeriod}
	},
	"Tsi": func() altInst {
		a := trend.NewTsi[float64]()
		return altInst{func(c Config) {
			a.FirstSmoothing.(*trend.Ema[float64]).Period = c.P[0]
			a.SecondSmoothing.(*trend.Ema[float64]).Period = c.P[1]
		}, func(in []C) []C { return o1(a.Compute(in[0])) }, a.IdlePeriod}
	},
	"Wma": func() altInst {
		a := trend.NewWmaWith[float64](3)
		return altInst{func(c Config) {
			a.Period = c.P[0]
		}, func(in []C) []C { return o1(a.Compute(in[0])) }, a.IdlePeriod}
	},
	"Rsi": func() altInst {
		a := momentum.NewRsi[float64]()
		return altInst{func(c Config) {
			a.Rma.Period = c.P[0]
		}, func(in []C) []C { return o1(a.Compute(in[0])) }, a.IdlePeriod}
	},
	"Atr": func() altInst {
		a := volatility.NewAtr[float64]()
		return altInst{func(c Config) {
			a.Ma.(*trend.Sma[float64]).Period = c.P[0]
		}, func(in []C) []C { return o1(a.Compute(in[0], in[1], in[2])) }, a.IdlePeriod}
	},
	"BollingerBands": func() altInst {
		a := volatility.NewBollingerBands[float64]()
		return altInst{func(c Config) {
			a.Period = c.P[0]
		}, func(in []C) []C { return o3(a.Compute(in[0])) }, a.IdlePeriod}
	},
	"DonchianChannel": func() altInst {
		a := volatility.NewDonchianChannel[float64]()
		return altInst{func(c Config) {
			a.Max.Period, a.Min.Period = c.P[0], c.P[0]
		}, func(in []C) []C { return o3(a.Compute(in[0])) }, a.IdlePeriod}
	},
	"MovingStd": func() altInst {
		a := volatility.NewMovingStd[float64]()
		return altInst{func(c Config) {
			a.Period = c.P[0]
		}, func(in []C) []C { return o1(a.Compute(in[0])) }, a.IdlePeriod}
	},
	"PercentB": func() altInst {
		a := volatility.NewPercentB[float64]()
		return altInst{func(c Config) {
			a.BollingerBands.Period = c.P[0]
		}, func(in []C) []C { return o1(a.Compute(in[0])) }, a.IdlePeriod}
	},
	"Cmf": func() altInst {
		a := volume.NewCmf[float64]()
		return altInst{func(c Config) {
			a.Sum.Period = c.P[0]
		}, func(in []C) []C { return o1(a.Compute(in[0], in[1], in[2], in[3])) }, a.IdlePeriod}
	},
	"Emv": func() altInst {
		a := volume.NewEmv[float64]()
		return altInst{func(c Config) {
			a.Sma.Period = c.P[0]
		}, func(in []C) []C { return o1(a.Compute(in[0], in[1], in[2])) }, a.IdlePeriod}
	},
	"Fi": func() altInst {
		a := volume.NewFi[float64]()
		return altInst{func(c Config) {
			a.Ema.Period = c.P[0]
		}, func(in []C) []C { return o1(a.Compute(in[0], in[1])) }, a.IdlePeriod}
	},
	"Vwap": func() altInst {
		a := volume.NewVwap[float64]()
		return altInst{func(c Config) {
			a.Sum.Period = c.P[0]
		}, func(in []C) []C { return o1(a.Compute(in[0], in[1])) }, a.IdlePeriod}
	},
}
