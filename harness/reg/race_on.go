//go:build race

package reg

// raceDetector: see race_off.go.
const raceDetector = true
