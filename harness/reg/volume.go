package reg

import (
	"github.com/cinar/indicator/v2/volume"
	"verif/harness/ref"
)

// signed cumulative model shared by OBV's documented rule.
func obvRef(in In, start ref.B) ref.S {
	cl, vo := in[Close], in[Volume]
	n := cl.Len()
	if vo.Len() < n {
		n = vo.Len()
	}
	out := ref.S{At: 0}
	prev := start
	dead := false
	for i := 0; i < n; i++ {
		if i > 0 {
			s, sure := ref.Cmp(cl.V[i], cl.V[i-1])
			if !sure {
				dead = true
			}
			if s > 0 {
				prev = ref.Add(prev, vo.V[i])
			} else if s < 0 {
				prev = ref.Sub(prev, vo.V[i])
			}
		}
		if dead {
			out.V = append(out.V, ref.Bad())
		} else {
			out.V = append(out.V, prev)
		}
	}
	return out
}

func volumeInds() []Ind {
	per := func(name string, def int) Param { return Param{name, def} }
	return []Ind{
		{
			Name: "Ad", Inputs: []string{High, Low, Close, Volume}, Outs: []string{"ad"},
			Build: func(c Config) (func([]C) []C, int) {
				a := volume.NewAd[float64]()
				return func(in []C) []C { return o1(a.Compute(in[0], in[1], in[2], in[3])) }, a.IdlePeriod()
			},
			Doc:      "MFM = ((Closing - Low) - (High - Closing)) / (High - Low); MFV = MFM * Period Volume; AD = Previous AD + CMFV",
			Ref:      func(c Config, in In) []ref.S { return []ref.S{adRef(in)} },
			PriceDeg: []int{0}, VolDeg: []int{1}, Recursive: true,
		},
		{
			Name: "Cmf", Inputs: []string{High, Low, Close, Volume}, Params: []Param{per("period", 20)}, Outs: []string{"cmf"},
			Build: func(c Config) (func([]C) []C, int) {
				a := volume.NewCmfWithPeriod[float64](c.P[0])
				return func(in []C) []C { return o1(a.Compute(in[0], in[1], in[2], in[3])) }, a.IdlePeriod()
			},
			Doc: "CMF = Sum(20, Money Flow Volume) / Sum(20, Volume)",
			Ref: func(c Config, in In) []ref.S {
				return []ref.S{ref.DivS(ref.WinSum(ref.MulS(mfmRef(in), in[Volume]), c.P[0]), ref.WinSum(in[Volume], c.P[0]))}
			},
			PriceDeg: []int{0}, VolDeg: []int{0}, Window: true,
		},
		{
			Name: "Emv", Inputs: []string{High, Low, Volume}, Params: []Param{per("period", 14)}, Outs: []string{"emv"},
			Build: func(c Config) (func([]C) []C, int) {
				a := volume.NewEmvWithPeriod[float64](c.P[0])
				return func(in []C) []C { return o1(a.Compute(in[0], in[1], in[2])) }, a.IdlePeriod()
			},
			Doc: "Distance Moved = ((High + Low) / 2) - ((Prior High + Prior Low) / 2); Box Ratio = ((Volume / 100000000) / (High - Low)); EMV(1) = Distance Moved / Box Ratio; EMV(14) = SMA(14, EMV(1))",
			Ref: func(c Config, in In) []ref.S {
				dm := ref.Change(ref.ScaleS(ref.AddS(in[High], in[Low]), 0.5), 1)
				br := ref.DivS(ref.Map(in[Volume], func(v ref.B) ref.B { return ref.Div(v, ref.Exact(100000000)) }), ref.SubS(in[High], in[Low]))
				return []ref.S{ref.SmaDiv(ref.DivS(dm, br), c.P[0])}
			},
			Defect: &Defect{Key: "Emv/box-ratio-of-previous-bar", Model: func(c Config, in In) []ref.S {
				dm := ref.Change(ref.ScaleS(ref.AddS(in[High], in[Low]), 0.5), 1)
				br := ref.DivS(ref.Map(in[Volume], func(v ref.B) ref.B { return ref.Div(v, ref.Exact(100000000)) }), ref.SubS(in[High], in[Low]))
				return []ref.S{ref.SmaDiv(ref.DivS(dm, ref.Lag(br, 1)), c.P[0])}
			}},
			PriceDeg: []int{2}, VolDeg: []int{-1}, Window: true,
		},
		{
			Name: "Fi", Inputs: []string{Close, Volume}, Params: []Param{per("period", 13)}, Outs: []string{"fi"},
			Build: func(c Config) (func([]C) []C, int) {
				a := volume.NewFiWithPeriod[float64](c.P[0])
				return func(in []C) []C { return o1(a.Compute(in[0], in[1])) }, a.IdlePeriod()
			},
			Doc: "FI = EMA(period, (Current - Previous) * Volume)",
			Ref: func(c Config, in In) []ref.S {
				return []ref.S{ref.Ema(ref.MulS(ref.Change(in[Close], 1), in[Volume]), c.P[0])}
			},
			Defect: &Defect{Key: "Fi/volume-of-previous-bar", Model: func(c Config, in In) []ref.S {
				return []ref.S{ref.Ema(ref.MulS(ref.Change(in[Close], 1), ref.Lag(in[Volume], 1)), c.P[0])}
			}},
			PriceDeg: []int{1}, VolDeg: []int{1}, Recursive: true,
		},
		{
			Name: "Mfi", Inputs: []string{High, Low, Close, Volume}, Params: []Param{per("period", 14)}, Outs: []string{"mfi"},
			Build: func(c Config) (func([]C) []C, int) {
				a := volume.NewMfi[float64]()
				a.Sum.Period = c.P[0]
				return func(in []C) []C { return o1(a.Compute(in[0], in[1], in[2], in[3])) }, a.IdlePeriod()
			},
			Doc: "Raw Money Flow = Typical Price * Volume; Money Ratio = Positive Money Flow / Negative Money Flow; MFI = 100 - (100 / (1 + Money Ratio)). The comment does not say what makes a flow positive; the code compares consecutive raw money flows and the reference follows it - not claimed.",
			Ref: func(c Config, in In) []ref.S {
				raw := ref.MulS(typical(in), in[Volume])
				pos, neg := ref.S{At: raw.At + 1}, ref.S{At: raw.At + 1}
				for i := 1; i < raw.Len(); i++ {
					s, sure := ref.Cmp(raw.V[i], raw.V[i-1])
					p, n := ref.Exact(0), ref.Exact(0)
					switch {
					case !sure:
						p, n = ref.Bad(), ref.Bad()
					case s > 0:
						p = raw.V[i]
					case s < 0:
						n = raw.V[i]
					}
					pos.V = append(pos.V, p)
					neg.V = append(neg.V, n)
				}
				mr := ref.DivS(ref.WinSum(pos, c.P[0]), ref.WinSum(neg, c.P[0]))
				return []ref.S{ref.Map(mr, func(x ref.B) ref.B {
					return ref.AddC(ref.Neg(ref.Div(ref.Exact(100), ref.AddC(x, 1))), 100)
				})}
			},
			PriceDeg: []int{0}, VolDeg: []int{0}, Window: true,
		},
		{
			Name: "Mfm", Inputs: []string{High, Low, Close}, Outs: []string{"mfm"},
			Build: func(c Config) (func([]C) []C, int) {
				a := volume.NewMfm[float64]()
				return func(in []C) []C { return o1(a.Compute(in[0], in[1], in[2])) }, a.IdlePeriod()
			},
			Doc:      "MFM = ((Closing - Low) - (High - Closing)) / (High - Low)",
			Ref:      func(c Config, in In) []ref.S { return []ref.S{mfmRef(in)} },
			PriceDeg: []int{0}, VolDeg: []int{0}, Window: true,
		},
		{
			Name: "Mfv", Inputs: []string{High, Low, Close, Volume}, Outs: []string{"mfv"},
			Build: func(c Config) (func([]C) []C, int) {
				a := volume.NewMfv[float64]()
				return func(in []C) []C { return o1(a.Compute(in[0], in[1], in[2], in[3])) }, a.IdlePeriod()
			},
			Doc:      "MFV = MFM * Volume",
			Ref:      func(c Config, in In) []ref.S { return []ref.S{ref.MulS(mfmRef(in), in[Volume])} },
			PriceDeg: []int{0}, VolDeg: []int{1}, Window: true,
		},
		{
			Name: "Nvi", Inputs: []string{Close, Volume}, FParams: []float64{1000}, Outs: []string{"nvi"},
			Build: func(c Config) (func([]C) []C, int) {
				a := volume.NewNvi[float64]()
				a.Initial = c.F[0]
				return func(in []C) []C { return o1(a.Compute(in[0], in[1])) }, a.IdlePeriod()
			},
			Doc: "If Volume is greater than Previous Volume: NVI = Previous NVI; otherwise NVI = Previous NVI + (((Closing - Previous Closing) / Previous Closing) * Previous NVI); initial NVI 1000",
			Ref: func(c Config, in In) []ref.S {
				cl, vo := in[Close], in[Volume]
				n := cl.Len()
				if vo.Len() < n {
					n = vo.Len()
				}
				out := ref.S{At: 1}
				prev := ref.Exact(c.F[0])
				dead := false
				for i := 1; i < n; i++ {
					s, sure := ref.Cmp(vo.V[i], vo.V[i-1])
					if !sure {
						dead = true
					}
					if s <= 0 {
						ratio := ref.Div(ref.Sub(cl.V[i], cl.V[i-1]), cl.V[i-1])
						prev = ref.Add(prev, ref.Mul(ratio, prev))
					}
					if dead {
						out.V = append(out.V, ref.Bad())
					} else {
						out.V = append(out.V, prev)
					}
				}
				return []ref.S{out}
			},
			PriceDeg: []int{0}, VolDeg: []int{0}, Recursive: true,
		},
		{
			Name: "Obv", Inputs: []string{Close, Volume}, Outs: []string{"obv"},
			Build: func(c Config) (func([]C) []C, int) {
				a := volume.NewObv[float64]()
				return func(in []C) []C { return o1(a.Compute(in[0], in[1])) }, a.IdlePeriod()
			},
			Doc: "If Closing[i] > Closing[i-1], OBV[i] = OBV[i-1] + Volume[i]; if equal, OBV[i] = OBV[i-1]; if less, OBV[i] = OBV[i-1] - Volume[i]. OBV[0] is not specified: both 0 and Volume[0] are accepted (reference series 0 and 1).",
			Ref: func(c Config, in In) []ref.S {
				return []ref.S{obvRef(in, ref.Exact(0))}
			},
			Alt: func(c Config, in In) []ref.S {
				if in[Volume].Len() == 0 {
					return []ref.S{obvRef(in, ref.Exact(0))}
				}
				return []ref.S{obvRef(in, in[Volume].V[0])}
			},
			Defect: &Defect{Key: "Obv/compares-close-with-previous-obv", Model: func(c Config, in In) []ref.S {
				cl, vo := in[Close], in[Volume]
				n := cl.Len()
				if vo.Len() < n {
					n = vo.Len()
				}
				out := ref.S{At: 0}
				prev := 0.0
				for i := 0; i < n; i++ {
					cur := prev
					if cl.V[i].V > prev {
						cur += vo.V[i].V
					} else if cl.V[i].V < prev {
						cur -= vo.V[i].V
					}
					prev = cur
					out.V = append(out.V, ref.B{V: cur, E: 4 * ref.Eps * float64(i+1) * (1 + absf(cur))})
				}
				return []ref.S{out}
			}},
			PriceDeg: []int{0}, VolDeg: []int{1}, Recursive: true,
		},
		{
			Name: "Vpt", Inputs: []string{Close, Volume}, Outs: []string{"vpt"},
			Build: func(c Config) (func([]C) []C, int) {
				a := volume.NewVpt[float64]()
				return func(in []C) []C { return o1(a.Compute(in[0], in[1])) }, a.IdlePeriod()
			},
			Doc: "VPT = Previous VPT + (Volume * (Current Closing - Previous Closing) / Previous Closing)",
			Ref: func(c Config, in In) []ref.S {
				r := ref.DivS(ref.Change(in[Close], 1), ref.Lag(in[Close], 1))
				return []ref.S{ref.Cum(ref.MulS(r, in[Volume]), 0)}
			},
			PriceDeg: []int{0}, VolDeg: []int{1}, Recursive: true,
		},
		{
			Name: "Vwap", Inputs: []string{Close, Volume}, Params: []Param{per("period", 14)}, Outs: []string{"vwap"},
			Build: func(c Config) (func([]C) []C, int) {
				a := volume.NewVwapWithPeriod[float64](c.P[0])
				return func(in []C) []C { return o1(a.Compute(in[0], in[1])) }, a.IdlePeriod()
			},
			Doc: "VWAP = Sum(Closing * Volume) / Sum(Volume)",
			Ref: func(c Config, in In) []ref.S {
				return []ref.S{ref.DivS(ref.WinSum(ref.MulS(in[Close], in[Volume]), c.P[0]), ref.WinSum(in[Volume], c.P[0]))}
			},
			PriceDeg: []int{1}, VolDeg: []int{0}, Window: true,
		},
	}
}

func absf(x float64) float64 {
	if x < 0 {
		return -x
	}
	return x
}
