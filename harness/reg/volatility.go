package reg

import (
	"github.com/cinar/indicator/v2/trend"
	"github.com/cinar/indicator/v2/volatility"
	"verif/harness/ref"
)

func trRef(in In) ref.S {
	pc := ref.Lag(in[Close], 1)
	return ref.Zip(func(x []ref.B) ref.B {
		// TR = Max((High - Low), (High - Previous Closing), (Previous Closing - Low))
		return ref.Max(ref.Sub(x[0], x[1]), ref.Max(ref.Sub(x[0], x[2]), ref.Sub(x[2], x[1])))
	}, in[High], in[Low], pc)
}

func stdRef(s ref.S, p int) ref.S {
	// Std = Sqrt(1/Period * Sum(Pow(value - sma), 2)); the mean comes from a running sum
	mean := ref.SmaDiv(s, p)
	return ref.Win(s, p, func(w []ref.B, end int) ref.B {
		m, _ := mean.Get(end)
		sum := ref.Exact(0)
		for _, x := range w {
			d := ref.Sub(x, m)
			sum = ref.Add(sum, ref.Mul(d, d))
		}
		return ref.Sqrt(ref.Div(sum, ref.Exact(float64(p))))
	})
}

func bollingerRef(s ref.S, p int) (ref.S, ref.S, ref.S) {
	mid := ref.SmaDiv(s, p)
	std2 := ref.ScaleS(stdRef(s, p), 2)
	return ref.AddS(mid, std2), mid, ref.SubS(mid, std2)
}

// superTrendRef replays the documented band/trend recursion; a comparison whose operands' balls
// overlap makes that and every later position undefined.
func superTrendRef(in In, atr ref.S, mult float64) ref.S {
	med := ref.ScaleS(ref.AddS(in[High], in[Low]), 0.5)
	out := ref.S{At: atr.At}
	first, up, dead := true, false, false
	var fu, fl, pc ref.B
	cl := in[Close]
	for p := atr.At; p < atr.End(); p++ {
		m, ok1 := med.Get(p)
		c, ok2 := cl.Get(p)
		if !ok1 || !ok2 {
			break
		}
		a, _ := atr.Get(p)
		am := ref.Scale(a, mult)
		bu, bl := ref.Add(m, am), ref.Sub(m, am)
		var v ref.B
		lt := func(x, y ref.B) bool { // x < y
			s, sure := ref.Cmp(x, y)
			if !sure {
				dead = true
			}
			return s < 0
		}
		if first {
			first = false
			fu, fl = bu, bl
			v = fl
		} else {
			if lt(bu, fu) || lt(fu, pc) {
				fu = bu
			}
			if lt(fl, bl) || lt(pc, fl) {
				fl = bl
			}
			if up {
				if !lt(fu, c) { // close <= fu
					v = fu
				} else {
					v = fl
					up = false
				}
			} else {
				if !lt(c, fl) { // close >= fl
					v = fl
				} else {
					v = fu
					up = true
				}
			}
		}
		pc = c
		if dead || v.IsBad() {
			dead = true
			out.V = append(out.V, ref.Bad())
		} else {
			out.V = append(out.V, v)
		}
	}
	return out
}

func volatilityInds() []Ind {
	per := func(name string, def int) Param { return Param{name, def} }
	return []Ind{
		{
			Name: "AccelerationBands", Inputs: []string{High, Low, Close}, Params: []Param{per("period", 20)}, Outs: []string{"upper", "middle", "lower"},
			Build: func(c Config) (func([]C) []C, int) {
				a := volatility.NewAccelerationBands[float64]()
				a.Period = c.P[0]
				return func(in []C) []C { return o3(a.Compute(in[0], in[1], in[2])) }, a.IdlePeriod()
			},
			Doc: "Upper Band = SMA(High * (1 + 4 * (High - Low) / (High + Low))); Middle Band = SMA(Closing); Lower Band = SMA(Low * (1 - 4 * (High - Low) / (High + Low)))",
			Ref: func(c Config, in In) []ref.S {
				k := ref.DivS(ref.SubS(in[High], in[Low]), ref.AddS(in[High], in[Low]))
				up := ref.MulS(in[High], ref.AddCS(ref.ScaleS(k, 4), 1))
				lo := ref.MulS(in[Low], ref.AddCS(ref.ScaleS(k, -4), 1))
				return []ref.S{ref.SmaDiv(up, c.P[0]), ref.SmaDiv(in[Close], c.P[0]), ref.SmaDiv(lo, c.P[0])}
			},
			PriceDeg: []int{1, 1, 1}, VolDeg: []int{0, 0, 0}, Window: true,
		},
		{
			Name: "Atr", Inputs: []string{High, Low, Close}, Params: []Param{per("period", 14)}, Outs: []string{"atr"},
			Build: func(c Config) (func([]C) []C, int) {
				a := volatility.NewAtrWithPeriod[float64](c.P[0])
				return func(in []C) []C { return o1(a.Compute(in[0], in[1], in[2])) }, a.IdlePeriod()
			},
			Doc:      "TR = Max((High - Low), (High - Previous Closing), (Previous Closing - Low)); ATR = MA TR (SMA by default)",
			Ref:      func(c Config, in In) []ref.S { return []ref.S{ref.SmaDiv(trRef(in), c.P[0])} },
			PriceDeg: []int{1}, VolDeg: []int{0}, Window: true,
		},
		{
			Name: "AtrEma", Inputs: []string{High, Low, Close}, Params: []Param{per("period", 14)}, Outs: []string{"atr"},
			Build: func(c Config) (func([]C) []C, int) {
				a := volatility.NewAtrWithMa[float64](trend.NewEmaWithPeriod[float64](c.P[0]))
				return func(in []C) []C { return o1(a.Compute(in[0], in[1], in[2])) }, a.IdlePeriod()
			},
			Doc:      "ATR = MA TR with an EMA as the MA",
			Ref:      func(c Config, in In) []ref.S { return []ref.S{ref.Ema(trRef(in), c.P[0])} },
			PriceDeg: []int{1}, VolDeg: []int{0}, Recursive: true,
		},
		{
			Name: "BollingerBandWidth", Inputs: []string{X}, Params: []Param{per("period", 20)}, Outs: []string{"width"},
			Build: func(c Config) (func([]C) []C, int) {
				a := volatility.NewBollingerBandWidth[float64]()
				a.BollingerBands.Period = c.P[0]
				return func(in []C) []C { return o1(a.Compute(in[0])) }, a.IdlePeriod()
			},
			Doc: "Band Width = (Upper Band - Lower Band) / Middle Band",
			Ref: func(c Config, in In) []ref.S {
				u, m, l := bollingerRef(in[X], c.P[0])
				return []ref.S{ref.DivS(ref.SubS(u, l), m)}
			},
			PriceDeg: []int{0}, VolDeg: []int{0}, Window: true,
		},
		{
			Name: "BollingerBands", Inputs: []string{X}, Params: []Param{per("period", 20)}, Outs: []string{"upper", "middle", "lower"},
			Build: func(c Config) (func([]C) []C, int) {
				a := volatility.NewBollingerBandsWithPeriod[float64](c.P[0])
				return func(in []C) []C { return o3(a.Compute(in[0])) }, a.IdlePeriod()
			},
			Doc: "Middle Band = 20-Period SMA. Upper Band = SMA + 2 (20-Period Std). Lower Band = SMA - 2 (20-Period Std); Std = Sqrt(1/Period * Sum(Pow(value - sma), 2))",
			Ref: func(c Config, in In) []ref.S {
				u, m, l := bollingerRef(in[X], c.P[0])
				return []ref.S{u, m, l}
			},
			PriceDeg: []int{1, 1, 1}, VolDeg: []int{0, 0, 0}, Window: true,
		},
		{
			Name: "ChandelierExit", Inputs: []string{High, Low, Close}, Params: []Param{per("period", 22)}, FParams: []float64{3}, Outs: []string{"long", "short"},
			Build: func(c Config) (func([]C) []C, int) {
				a := volatility.NewChandelierExit[float64]()
				a.Period, a.Multiplier = c.P[0], c.F[0]
				return func(in []C) []C { return o2(a.Compute(in[0], in[1], in[2])) }, a.IdlePeriod()
			},
			Doc: "Chandelier Exit Long = 22-Period High - ATR(22) * 3; Short = 22-Period Low + ATR(22) * 3 ('SMA High' in the comment read as the period's highest high - not claimed)",
			Ref: func(c Config, in In) []ref.S {
				a := ref.ScaleS(ref.SmaDiv(trRef(in), c.P[0]), c.F[0])
				return []ref.S{ref.SubS(ref.WinMax(in[High], c.P[0]), a), ref.AddS(ref.WinMin(in[Low], c.P[0]), a)}
			},
			PriceDeg: []int{1, 1}, VolDeg: []int{0, 0}, Window: true,
		},
		{
			Name: "DonchianChannel", Inputs: []string{X}, Params: []Param{per("period", 20)}, Outs: []string{"upper", "middle", "lower"},
			Build: func(c Config) (func([]C) []C, int) {
				a := volatility.NewDonchianChannelWithPeriod[float64](c.P[0])
				return func(in []C) []C { return o3(a.Compute(in[0])) }, a.IdlePeriod()
			},
			Doc: "Upper Channel = Mmax(period, closings); Lower Channel = Mmin(period, closings); Middle Channel = (Upper Channel + Lower Channel) / 2",
			Ref: func(c Config, in In) []ref.S {
				mx, mn := ref.WinMax(in[X], c.P[0]), ref.WinMin(in[X], c.P[0])
				return []ref.S{mx, ref.ScaleS(ref.AddS(mx, mn), 0.5), mn}
			},
			PriceDeg: []int{1, 1, 1}, VolDeg: []int{0, 0, 0}, Window: true,
		},
		{
			Name: "KeltnerChannel", Inputs: []string{High, Low, Close}, Params: []Param{per("ema", 20), per("atr", 20)}, Outs: []string{"upper", "middle", "lower"},
			// the EMA must not warm up after the ATR (the code skips the EMA by the difference)
			Fix: func(c *Config) {
				if c.P[1]+1 < c.P[0] {
					c.P[0], c.P[1] = c.P[1], c.P[0]
				}
				if c.P[1]+1 < c.P[0] {
					c.P[0] = c.P[1] + 1
				}
			},
			Build: func(c Config) (func([]C) []C, int) {
				a := volatility.NewKeltnerChannelWithPeriod[float64](c.P[0])
				a.Atr = volatility.NewAtrWithPeriod[float64](c.P[1])
				if len(c.S) > 0 {
					a.Ema.Smoothing = c.Sm(0)
				}
				return func(in []C) []C { return o3(a.Compute(in[0], in[1], in[2])) }, a.IdlePeriod()
			},
			Doc: "Middle Line = EMA(period, closings); Upper Band = EMA + 2 * ATR(period, highs, lows, closings); Lower Band = EMA - 2 * ATR",
			Ref: func(c Config, in In) []ref.S {
				e := ref.EmaK(in[Close], c.P[0], c.Sm(0))
				a2 := ref.ScaleS(ref.SmaDiv(trRef(in), c.P[1]), 2)
				return []ref.S{ref.AddS(e, a2), ref.Tail(e, a2.At), ref.SubS(e, a2)}
			},
			PriceDeg: []int{1, 1, 1}, VolDeg: []int{0, 0, 0}, Recursive: true, NS: 1,
		},
		{
			Name: "MovingStd", Inputs: []string{X}, Params: []Param{per("period", 1)}, Outs: []string{"std"},
			Build: func(c Config) (func([]C) []C, int) {
				a := volatility.NewMovingStdWithPeriod[float64](c.P[0])
				return func(in []C) []C { return o1(a.Compute(in[0])) }, a.IdlePeriod()
			},
			Doc:      "Std = Sqrt(1/Period * Sum(Pow(value - sma), 2))",
			Ref:      func(c Config, in In) []ref.S { return []ref.S{stdRef(in[X], c.P[0])} },
			PriceDeg: []int{1}, VolDeg: []int{0}, Window: true,
		},
		{
			Name: "PercentB", Inputs: []string{X}, Params: []Param{per("period", 20)}, Outs: []string{"pb"},
			Build: func(c Config) (func([]C) []C, int) {
				a := volatility.NewPercentBWithPeriod[float64](c.P[0])
				return func(in []C) []C { return o1(a.Compute(in[0])) }, a.IdlePeriod()
			},
			Doc: "%B = (Close - Lower Band) / (Upper Band - Lower Band)",
			Ref: func(c Config, in In) []ref.S {
				u, _, l := bollingerRef(in[X], c.P[0])
				return []ref.S{ref.DivS(ref.SubS(in[X], l), ref.SubS(u, l))}
			},
			PriceDeg: []int{0}, VolDeg: []int{0}, Window: true,
		},
		{
			Name: "Po", Inputs: []string{High, Low, Close}, Params: []Param{per("period", 14)}, Outs: []string{"po"},
			Build: func(c Config) (func([]C) []C, int) {
				a := volatility.NewPoWithPeriod[float64](c.P[0])
				return func(in []C) []C { return o1(a.Compute(in[0], in[1], in[2])) }, a.IdlePeriod()
			},
			Doc: "PL = Min(period, (high + MLS(period, x, high))); PH = Max(period, (low + MLS(period, x, low))); PO = 100 * (Closing - PL) / (PH - PL), x = 1,2,3,...; 'MLS' read as the regression slope m (the comment: 'It uses the linear regression slope') - not claimed.",
			Ref: func(c Config, in In) []ref.S {
				n := in[Close].Len()
				xs := make([]float64, n)
				for i := range xs {
					xs[i] = float64(i + 1)
				}
				x := ref.Lift(xs)
				mh, _ := mlsRef(x, in[High], c.P[0])
				ml, _ := mlsRef(x, in[Low], c.P[0])
				pl := ref.WinMin(ref.AddS(in[High], mh), c.P[0])
				ph := ref.WinMax(ref.AddS(in[Low], ml), c.P[0])
				return []ref.S{ref.ScaleS(ref.DivS(ref.SubS(in[Close], pl), ref.SubS(ph, pl)), 100)}
			},
			PriceDeg: []int{0}, VolDeg: []int{0}, Window: true,
		},
		{
			Name: "SuperTrendHma", Inputs: []string{High, Low, Close}, Params: []Param{per("period", 14)}, FParams: []float64{2.5}, Outs: []string{"st"},
			Build: func(c Config) (func([]C) []C, int) {
				a := volatility.NewSuperTrendWithPeriod[float64](c.P[0], c.F[0])
				return func(in []C) []C { return o1(a.Compute(in[0], in[1], in[2])) }, a.IdlePeriod()
			},
			Doc: "Super Trend band/trend recursion of the type comment with ATR = HMA of the true range; the first value (final lower band) follows the code - not claimed.",
			Ref: func(c Config, in In) []ref.S {
				hm, _ := ByNameInternal("Hma")
				atr := hm.Ref(Config{P: []int{c.P[0]}}, In{X: trRef(in)})[0]
				return []ref.S{superTrendRef(in, atr, c.F[0])}
			},
			PriceDeg: []int{1}, VolDeg: []int{0}, Recursive: true,
		},
		{
			Name: "SuperTrendSma", Inputs: []string{High, Low, Close}, Params: []Param{per("period", 14)}, FParams: []float64{2.5}, Outs: []string{"st"},
			Build: func(c Config) (func([]C) []C, int) {
				a := volatility.NewSuperTrendWithMa[float64](trend.NewSmaWithPeriod[float64](c.P[0]), c.F[0])
				return func(in []C) []C { return o1(a.Compute(in[0], in[1], in[2])) }, a.IdlePeriod()
			},
			Doc: "Super Trend with ATR = SMA of the true range.",
			Ref: func(c Config, in In) []ref.S {
				return []ref.S{superTrendRef(in, ref.SmaDiv(trRef(in), c.P[0]), c.F[0])}
			},
			PriceDeg: []int{1}, VolDeg: []int{0}, Recursive: true,
		},
		{
			Name: "UlcerIndex", Inputs: []string{X}, Params: []Param{per("period", 14)}, Outs: []string{"ui"},
			Build: func(c Config) (func([]C) []C, int) {
				a := volatility.NewUlcerIndex[float64]()
				a.Period = c.P[0]
				return func(in []C) []C { return o1(a.Compute(in[0])) }, a.IdlePeriod()
			},
			Doc: "High Closings = Max(period, Closings); Percentage Drawdown = 100 * ((Closings - High Closings) / High Closings); Squared Average = Sma(period, Percent Drawdown * Percent Drawdown); Ulcer Index = Sqrt(Squared Average)",
			Ref: func(c Config, in In) []ref.S {
				hc := ref.WinMax(in[X], c.P[0])
				pd := ref.ScaleS(ref.DivS(ref.SubS(in[X], hc), hc), 100)
				return []ref.S{ref.SqrtS(ref.SmaDiv(ref.MulS(pd, pd), c.P[0]))}
			},
			Defect: &Defect{Key: "UlcerIndex/abs-of-mean-drawdown", Model: func(c Config, in In) []ref.S {
				hc := ref.WinMax(in[X], c.P[0])
				pd := ref.ScaleS(ref.DivS(ref.SubS(in[X], hc), hc), 100)
				return []ref.S{ref.AbsS(ref.SmaDiv(pd, c.P[0]))}
			}},
			PriceDeg: []int{0}, VolDeg: []int{0}, Window: true,
		},
	}
}

// ByNameInternal finds an entry among the trend indicators without building the whole registry
// recursively.
func ByNameInternal(name string) (Ind, bool) {
	for _, i := range trendInds() {
		if i.Name == name {
			return i, true
		}
	}
	return Ind{}, false
}
