package reg

import (
	"math"

	"github.com/cinar/indicator/v2/trend"
	"verif/harness/ref"
)

// zipIdx combines series index by index (what a stream zip without alignment does) and anchors
// the result at position at.
func zipIdx(at int, f func(x []ref.B) ref.B, ss ...ref.S) ref.S {
	n := math.MaxInt32
	for _, s := range ss {
		if s.Len() < n {
			n = s.Len()
		}
	}
	out := ref.S{At: at}
	xs := make([]ref.B, len(ss))
	for i := 0; i < n; i++ {
		for j, s := range ss {
			xs[j] = s.V[i]
		}
		out.V = append(out.V, f(xs))
	}
	return out
}

func typical(in In) ref.S {
	return ref.Zip(func(x []ref.B) ref.B {
		return ref.Div(ref.Add(ref.Add(x[0], x[1]), x[2]), ref.Exact(3))
	}, in[High], in[Low], in[Close])
}

func wmaRef(s ref.S, p int) ref.S {
	return ref.Win(s, p, func(w []ref.B, _ int) ref.B {
		sum := ref.Exact(0)
		for i, x := range w {
			sum = ref.Add(sum, ref.Div(ref.Scale(x, float64(i+1)), ref.Exact(float64(p))))
		}
		return ref.Scale(sum, 0.5)
	})
}

// sinceExtreme: number of positions since the window's extreme occurred; undefined when the
// extreme is attained more than once in the window (the doc comment does not say which counts).
func sinceExtreme(s ref.S, p int, max bool) ref.S {
	return ref.Win(s, p, func(w []ref.B, _ int) ref.B {
		best, at, ties := w[0], 0, 0
		for i, x := range w[1:] {
			c, sure := ref.Cmp(x, best)
			if !sure {
				return ref.Bad()
			}
			if !max {
				c = -c
			}
			if c > 0 {
				best, at, ties = x, i+1, 0
			} else if c == 0 {
				ties++
				at = i + 1
			}
		}
		if ties > 0 {
			return ref.Bad()
		}
		return ref.Exact(float64(len(w) - 1 - at))
	})
}

// aroonDefect: periods since the moving extreme last CHANGED VALUE, then rounded to 0 digits.
func aroonDefect(s ref.S, p int, max bool) ref.S {
	var ext ref.S
	if max {
		ext = ref.WinMax(s, p)
	} else {
		ext = ref.WinMin(s, p)
	}
	out := ref.S{At: ext.At}
	first, last, count := true, 0.0, 0.0
	for _, x := range ext.V {
		if first || last != x.V {
			first, last, count = false, x.V, 0
		} else {
			count++
		}
		v := count * -1
		v = v + float64(p)
		v = v / float64(p)
		v = v * 100
		v = math.Round(v*1) / 1
		out.V = append(out.V, ref.B{V: v, E: 0})
	}
	return out
}

func trendInds() []Ind {
	per := func(name string, def int) Param { return Param{name, def} }
	return []Ind{
		{
			Name: "Apo", Inputs: []string{X}, Params: []Param{per("fast", 14), per("slow", 30)}, Outs: []string{"apo"},
			Fix: func(c *Config) { sort2(&c.P[0], &c.P[1]) },
			Build: func(c Config) (func([]C) []C, int) {
				a := trend.NewApo[float64]()
				a.FastPeriod, a.SlowPeriod = c.P[0], c.P[1]
				return func(in []C) []C { return o1(a.Compute(in[0])) }, declared(a, c.P[1] - 1)
			},
			Doc: "Fast = Ema(values, fastPeriod); Slow = Ema(values, slowPeriod); APO = Fast - Slow. No IdlePeriod method: warm-up implied = slow-1.",
			Ref: func(c Config, in In) []ref.S {
				return []ref.S{ref.SubS(ref.Ema(in[X], c.P[0]), ref.Ema(in[X], c.P[1]))}
			},
			Defect: &Defect{Key: "Apo/branches-subtracted-without-alignment", Model: func(c Config, in In) []ref.S {
				return []ref.S{zipIdx(c.P[1]-1, func(x []ref.B) ref.B { return ref.Sub(x[0], x[1]) }, ref.Ema(in[X], c.P[0]), ref.Ema(in[X], c.P[1]))}
			}},
			PriceDeg: []int{1}, VolDeg: []int{0}, Recursive: true,
		},
		{
			Name: "Aroon", Inputs: []string{High, Low}, Params: []Param{per("period", 25)}, Outs: []string{"up", "down"},
			Build: func(c Config) (func([]C) []C, int) {
				a := trend.NewAroon[float64]()
				a.Period = c.P[0]
				return func(in []C) []C { return o2(a.Compute(in[0], in[1])) }, declared(a, c.P[0] - 1)
			},
			Doc: "Aroon Up = ((25 - Period Since Last 25 Period High) / 25) * 100; Down likewise with the low. Warm-up implied = period-1. Positions whose window attains the extreme more than once are not claimed.",
			Ref: func(c Config, in In) []ref.S {
				p := float64(c.P[0])
				f := func(s ref.S) ref.S {
					return ref.Map(s, func(x ref.B) ref.B {
						return ref.Scale(ref.Div(ref.AddC(ref.Neg(x), p), ref.Exact(p)), 100)
					})
				}
				return []ref.S{f(sinceExtreme(in[High], c.P[0], true)), f(sinceExtreme(in[Low], c.P[0], false))}
			},
			Defect: &Defect{Key: "Aroon/since-extreme-changed-value-and-rounded", Model: func(c Config, in In) []ref.S {
				return []ref.S{aroonDefect(in[High], c.P[0], true), aroonDefect(in[Low], c.P[0], false)}
			}},
			PriceDeg: []int{0, 0}, VolDeg: []int{0, 0}, Window: true,
		},
		{
			Name: "Bop", Inputs: []string{Open, High, Low, Close}, Outs: []string{"bop"},
			Build: func(c Config) (func([]C) []C, int) {
				a := trend.NewBop[float64]()
				return func(in []C) []C { return o1(a.Compute(in[0], in[1], in[2], in[3])) }, declared(a, 0)
			},
			Doc: "BOP = (Closing - Opening) / (High - Low)",
			Ref: func(c Config, in In) []ref.S {
				return []ref.S{ref.DivS(ref.SubS(in[Close], in[Open]), ref.SubS(in[High], in[Low]))}
			},
			PriceDeg: []int{0}, VolDeg: []int{0}, Window: true,
		},
		{
			Name: "Cci", Inputs: []string{High, Low, Close}, Params: []Param{per("period", 20)}, Outs: []string{"cci"},
			Build: func(c Config) (func([]C) []C, int) {
				a := trend.NewCciWithPeriod[float64](c.P[0])
				return func(in []C) []C { return o1(a.Compute(in[0], in[1], in[2])) }, a.IdlePeriod()
			},
			Doc: "Moving Average = Sma(Period, Typical Price); Mean Deviation = Sma(Period, Abs(Typical Price - Moving Average)); CCI = (Typical Price - Moving Average) / (0.015 * Mean Deviation)",
			Ref: func(c Config, in In) []ref.S {
				tp := typical(in)
				ma := ref.SmaDiv(tp, c.P[0])
				md := ref.SmaDiv(ref.AbsS(ref.SubS(tp, ma)), c.P[0])
				return []ref.S{ref.DivS(ref.SubS(tp, ma), ref.ScaleS(md, 0.015))}
			},
			PriceDeg: []int{0}, VolDeg: []int{0}, Window: true,
		},
		{
			Name: "Dema", Inputs: []string{X}, Params: []Param{per("ema1", 20), per("ema2", 20)}, Outs: []string{"dema"},
			Build: func(c Config) (func([]C) []C, int) {
				a := trend.NewDema[float64]()
				a.Ema1.Period, a.Ema2.Period = c.P[0], c.P[1]
				return func(in []C) []C { return o1(a.Compute(in[0])) }, a.IdlePeriod()
			},
			Doc: "DEMA = (2 * EMA1(values)) - EMA2(EMA1(values))",
			Ref: func(c Config, in In) []ref.S {
				e1 := ref.Ema(in[X], c.P[0])
				return []ref.S{ref.SubS(ref.ScaleS(e1, 2), ref.Ema(e1, c.P[1]))}
			},
			Defect: &Defect{Key: "Dema/branches-subtracted-without-alignment", Model: func(c Config, in In) []ref.S {
				e1 := ref.Ema(in[X], c.P[0])
				return []ref.S{zipIdx(c.P[0]+c.P[1]-2, func(x []ref.B) ref.B { return ref.Sub(x[0], x[1]) }, ref.ScaleS(e1, 2), ref.Ema(e1, c.P[1]))}
			}},
			PriceDeg: []int{1}, VolDeg: []int{0}, Recursive: true,
		},
		{
			Name: "Ema", Inputs: []string{X}, Params: []Param{per("period", 20)}, FParams: []float64{2}, Outs: []string{"ema"},
			Build: func(c Config) (func([]C) []C, int) {
				a := trend.NewEmaWithPeriod[float64](c.P[0])
				a.Smoothing = c.F[0]
				return func(in []C) []C { return o1(a.Compute(in[0])) }, a.IdlePeriod()
			},
			Doc:      "EMA with multiplier Smoothing/(Period+1); 'Initial EMA value is the SMA' (code comment; the type comment is silent on the seed - not claimed).",
			Ref:      func(c Config, in In) []ref.S { return []ref.S{ref.EmaK(in[X], c.P[0], c.F[0])} },
			PriceDeg: []int{1}, VolDeg: []int{0}, Recursive: true, ZeroF: true,
		},
		{
			Name: "EnvelopeSma", Inputs: []string{X}, Params: []Param{per("period", 20)}, FParams: []float64{20}, Outs: []string{"upper", "middle", "lower"},
			Build: func(c Config) (func([]C) []C, int) {
				a := trend.NewEnvelope[float64](trend.NewSmaWithPeriod[float64](c.P[0]), c.F[0])
				return func(in []C) []C { return o3(a.Compute(in[0])) }, a.IdlePeriod()
			},
			Doc: "Envelope: moving average multiplied by 1 +/- percentage/100.",
			Ref: func(c Config, in In) []ref.S {
				m := ref.SmaDiv(in[X], c.P[0])
				return []ref.S{ref.ScaleS(m, 1+(c.F[0]/100.0)), m, ref.ScaleS(m, 1-(c.F[0]/100.0))}
			},
			PriceDeg: []int{1, 1, 1}, VolDeg: []int{0, 0, 0}, Window: true,
		},
		{
			Name: "EnvelopeEma", Inputs: []string{X}, Params: []Param{per("period", 20)}, FParams: []float64{20}, Outs: []string{"upper", "middle", "lower"},
			Build: func(c Config) (func([]C) []C, int) {
				a := trend.NewEnvelope[float64](trend.NewEmaWithPeriod[float64](c.P[0]), c.F[0])
				return func(in []C) []C { return o3(a.Compute(in[0])) }, a.IdlePeriod()
			},
			Doc: "Envelope over EMA.",
			Ref: func(c Config, in In) []ref.S {
				m := ref.Ema(in[X], c.P[0])
				return []ref.S{ref.ScaleS(m, 1+(c.F[0]/100.0)), m, ref.ScaleS(m, 1-(c.F[0]/100.0))}
			},
			PriceDeg: []int{1, 1, 1}, VolDeg: []int{0, 0, 0}, Recursive: true,
		},
		{
			Name: "Hma", Inputs: []string{X}, Params: []Param{per("period", 9)}, Outs: []string{"hma"},
			Build: func(c Config) (func([]C) []C, int) {
				a := trend.NewHmaWithPeriod[float64](c.P[0])
				return func(in []C) []C { return o1(a.Compute(in[0])) }, a.IdlePeriod()
			},
			Doc: "WMA1 = WMA(period/2, values); WMA2 = WMA(period, values); WMA3 = WMA(sqrt(period), (2 * WMA1) - WMA2); HMA = WMA3 (period/2 and sqrt(period) rounded to the nearest integer, as the constructor does)",
			Ref: func(c Config, in In) []ref.S {
				p := c.P[0]
				p1 := int(math.Round(float64(p) / 2))
				p3 := int(math.Round(math.Sqrt(float64(p))))
				return []ref.S{wmaRef(ref.SubS(ref.ScaleS(wmaRef(in[X], p1), 2), wmaRef(in[X], p)), p3)}
			},
			PriceDeg: []int{1}, VolDeg: []int{0}, Window: true,
		},
		{
			Name: "Kama", Inputs: []string{X}, Params: []Param{per("er", 10), per("fast", 2), per("slow", 30)}, Outs: []string{"kama"},
			Fix: func(c *Config) { sort2(&c.P[1], &c.P[2]) },
			Build: func(c Config) (func([]C) []C, int) {
				a := trend.NewKamaWith[float64](c.P[0], c.P[1], c.P[2])
				return func(in []C) []C { return o1(a.Compute(in[0])) }, a.IdlePeriod()
			},
			Doc: "Direction = Abs(Close - Previous Close Period Ago); Volatility = MovingSum(Period, Abs(Close - Previous Close)); ER = Direction / Volatility; SC = (ER * (2/(Fast+1) - 2/(Slow+1)) + 2/(Slow+1))^2; KAMA = Previous KAMA + SC * (Price - Previous KAMA). Seed (first 'previous KAMA' = the close one position before the first output) follows the code - not claimed.",
			Ref: func(c Config, in In) []ref.S {
				x := in[X]
				er := ref.DivS(ref.AbsS(ref.Change(x, c.P[0])), ref.WinSum(ref.AbsS(ref.Change(x, 1)), c.P[0]))
				f, s := 2.0/float64(c.P[1]+1), 2.0/float64(c.P[2]+1)
				sc := ref.Map(er, func(e ref.B) ref.B { v := ref.AddC(ref.Scale(e, f-s), s); return ref.Mul(v, v) })
				out := ref.S{At: c.P[0]}
				if x.Len() < c.P[0] {
					return []ref.S{out}
				}
				prev := x.V[c.P[0]-1]
				for p := c.P[0]; p < x.End(); p++ {
					k, ok := sc.Get(p)
					if !ok {
						break
					}
					prev = ref.Add(prev, ref.Mul(k, ref.Sub(x.V[p], prev)))
					out.V = append(out.V, prev)
				}
				return []ref.S{out}
			},
			PriceDeg: []int{1}, VolDeg: []int{0}, Recursive: true,
		},
		{
			Name: "Kdj", Inputs: []string{High, Low, Close}, Params: []Param{per("minmax", 9), per("sma1", 3), per("sma2", 3)}, Outs: []string{"k", "d", "j"},
			Build: func(c Config) (func([]C) []C, int) {
				a := trend.NewKdj[float64]()
				a.MovingMax.Period, a.MovingMin.Period, a.Sma1.Period, a.Sma2.Period = c.P[0], c.P[0], c.P[1], c.P[2]
				return func(in []C) []C { return o3(a.Compute(in[0], in[1], in[2])) }, a.IdlePeriod()
			},
			Doc: "RSV = ((Closing - Min(Low, rPeriod)) / (Max(High, rPeriod) - Min(Low, rPeriod))) * 100; K = Sma(RSV, kPeriod); D = Sma(K, dPeriod); J = (3 * K) - (2 * D)",
			Ref: func(c Config, in In) []ref.S {
				hh, ll := ref.WinMax(in[High], c.P[0]), ref.WinMin(in[Low], c.P[0])
				rsv := ref.ScaleS(ref.DivS(ref.SubS(in[Close], ll), ref.SubS(hh, ll)), 100)
				k := ref.SmaDiv(rsv, c.P[1])
				d := ref.SmaDiv(k, c.P[2])
				j := ref.SubS(ref.ScaleS(k, 3), ref.ScaleS(d, 2))
				return []ref.S{ref.Tail(k, d.At), d, j}
			},
			PriceDeg: []int{0, 0, 0}, VolDeg: []int{0, 0, 0}, Window: true,
		},
		{
			Name: "Macd", Inputs: []string{X}, Params: []Param{per("p1", 12), per("p2", 26), per("p3", 9)}, Outs: []string{"macd", "signal"},
			Fix: func(c *Config) { sort2(&c.P[0], &c.P[1]) },
			Build: func(c Config) (func([]C) []C, int) {
				a := trend.NewMacdWithPeriod[float64](c.P[0], c.P[1], c.P[2])
				if len(c.S) > 0 {
					a.Ema1.Smoothing, a.Ema2.Smoothing, a.Ema3.Smoothing = c.Sm(0), c.Sm(1), c.Sm(2)
				}
				return func(in []C) []C { return o2(a.Compute(in[0])) }, a.IdlePeriod()
			},
			Doc: "MACD = 12-Period EMA - 26-Period EMA. Signal = 9-Period EMA of MACD.",
			Ref: func(c Config, in In) []ref.S {
				m := ref.SubS(ref.EmaK(in[X], c.P[0], c.Sm(0)), ref.EmaK(in[X], c.P[1], c.Sm(1)))
				s := ref.EmaK(m, c.P[2], c.Sm(2))
				return []ref.S{ref.Tail(m, s.At), s}
			},
			PriceDeg: []int{1, 1}, VolDeg: []int{0, 0}, Recursive: true, NS: 3,
		},
		{
			Name: "MassIndex", Inputs: []string{High, Low}, Params: []Param{per("ema1", 9), per("ema2", 9), per("sum", 25)}, Outs: []string{"mi"},
			Build: func(c Config) (func([]C) []C, int) {
				a := trend.NewMassIndex[float64]()
				a.Ema1.Period, a.Ema2.Period, a.MovingSum.Period = c.P[0], c.P[1], c.P[2]
				if len(c.S) > 0 {
					a.Ema1.Smoothing, a.Ema2.Smoothing = c.Sm(0), c.Sm(1)
				}
				return func(in []C) []C { return o1(a.Compute(in[0], in[1])) }, a.IdlePeriod()
			},
			Doc: "Single EMA = EMA(9, Highs - Lows); Double EMA = EMA(9, Single EMA); Ratio = Single EMA / Double EMA; Mass Index = SUM(Ratio, 25)",
			Ref: func(c Config, in In) []ref.S {
				e1 := ref.EmaK(ref.SubS(in[High], in[Low]), c.P[0], c.Sm(0))
				e2 := ref.EmaK(e1, c.P[1], c.Sm(1))
				return []ref.S{ref.WinSum(ref.DivS(e1, e2), c.P[2])}
			},
			PriceDeg: []int{0}, VolDeg: []int{0}, Recursive: true, NS: 2,
		},
		{
			Name: "Mlr", Inputs: []string{X, Y}, Params: []Param{per("period", 14)}, Outs: []string{"r"},
			Build: func(c Config) (func([]C) []C, int) {
				a := trend.NewMlrWithPeriod[float64](c.P[0])
				return func(in []C) []C { return o1(a.Compute(in[0], in[1])) }, a.IdlePeriod()
			},
			Doc: "y = mx + b with m, b from the moving least square over the period",
			Ref: func(c Config, in In) []ref.S {
				m, b := mlsRef(in[X], in[Y], c.P[0])
				return []ref.S{ref.AddS(ref.MulS(m, in[X]), b)}
			},
			PriceDeg: []int{NA}, VolDeg: []int{NA}, Window: true,
		},
		{
			Name: "Mls", Inputs: []string{X, Y}, Params: []Param{per("period", 14)}, Outs: []string{"m", "b"},
			Build: func(c Config) (func([]C) []C, int) {
				a := trend.NewMlsWithPeriod[float64](c.P[0])
				return func(in []C) []C { return o2(a.Compute(in[0], in[1])) }, a.IdlePeriod()
			},
			Doc: "m = (period * sumXY - sumX * sumY) / (period * sumX2 - sumX * sumX); b = (sumY - m * sumX) / period",
			Ref: func(c Config, in In) []ref.S {
				m, b := mlsRef(in[X], in[Y], c.P[0])
				return []ref.S{m, b}
			},
			PriceDeg: []int{NA, NA}, VolDeg: []int{NA, NA}, Window: true,
		},
		{
			Name: "MovingMax", Inputs: []string{X}, Params: []Param{per("period", 5)}, Outs: []string{"max"},
			Build: func(c Config) (func([]C) []C, int) {
				a := trend.NewMovingMaxWithPeriod[float64](c.P[0])
				return func(in []C) []C { return o1(a.Compute(in[0])) }, a.IdlePeriod()
			},
			Doc: "Moving Max over the specified period", Ref: func(c Config, in In) []ref.S { return []ref.S{ref.WinMax(in[X], c.P[0])} },
			PriceDeg: []int{1}, VolDeg: []int{0}, Window: true,
		},
		{
			Name: "MovingMin", Inputs: []string{X}, Params: []Param{per("period", 5)}, Outs: []string{"min"},
			Build: func(c Config) (func([]C) []C, int) {
				a := trend.NewMovingMinWithPeriod[float64](c.P[0])
				return func(in []C) []C { return o1(a.Compute(in[0])) }, a.IdlePeriod()
			},
			Doc: "Moving Min over the specified period", Ref: func(c Config, in In) []ref.S { return []ref.S{ref.WinMin(in[X], c.P[0])} },
			PriceDeg: []int{1}, VolDeg: []int{0}, Window: true,
		},
		{
			Name: "MovingSum", Inputs: []string{X}, Params: []Param{per("period", 5)}, Outs: []string{"sum"},
			Build: func(c Config) (func([]C) []C, int) {
				a := trend.NewMovingSumWithPeriod[float64](c.P[0])
				return func(in []C) []C { return o1(a.Compute(in[0])) }, a.IdlePeriod()
			},
			Doc: "Moving Sum over the specified period", Ref: func(c Config, in In) []ref.S { return []ref.S{ref.WinSum(in[X], c.P[0])} },
			PriceDeg: []int{1}, VolDeg: []int{0}, Window: true,
		},
		{
			Name: "Rma", Inputs: []string{X}, Params: []Param{per("period", 20)}, Outs: []string{"rma"},
			Build: func(c Config) (func([]C) []C, int) {
				a := trend.NewRmaWithPeriod[float64](c.P[0])
				return func(in []C) []C { return o1(a.Compute(in[0])) }, a.IdlePeriod()
			},
			Doc:      "R[0] to R[p-1] is SMA(values); R[p] and after is R[i] = ((R[i-1]*(p-1)) + v[i]) / p",
			Ref:      func(c Config, in In) []ref.S { return []ref.S{ref.Rma(in[X], c.P[0])} },
			PriceDeg: []int{1}, VolDeg: []int{0}, Recursive: true,
		},
		{
			Name: "Sma", Inputs: []string{X}, Params: []Param{per("period", 50)}, Outs: []string{"sma"},
			Build: func(c Config) (func([]C) []C, int) {
				a := trend.NewSmaWithPeriod[float64](c.P[0])
				return func(in []C) []C { return o1(a.Compute(in[0])) }, a.IdlePeriod()
			},
			Doc: "Simple Moving Average over the period", Ref: func(c Config, in In) []ref.S { return []ref.S{ref.SmaDiv(in[X], c.P[0])} },
			PriceDeg: []int{1}, VolDeg: []int{0}, Window: true,
		},
		{
			Name: "Smma", Inputs: []string{X}, Params: []Param{per("period", 7)}, Outs: []string{"smma"},
			Build: func(c Config) (func([]C) []C, int) {
				a := trend.NewSmmaWithPeriod[float64](c.P[0])
				return func(in []C) []C { return o1(a.Compute(in[0])) }, a.IdlePeriod()
			},
			Doc:      "SMMA[0] = SMA(N); SMMA[i] = ((SMMA[i-1] * (N - 1)) + Close[i]) / N",
			Ref:      func(c Config, in In) []ref.S { return []ref.S{ref.Rma(in[X], c.P[0])} },
			PriceDeg: []int{1}, VolDeg: []int{0}, Recursive: true,
		},
		{
			Name: "Tema", Inputs: []string{X}, Params: []Param{per("ema1", 20), per("ema2", 20), per("ema3", 20)}, Outs: []string{"tema"},
			Build: func(c Config) (func([]C) []C, int) {
				a := trend.NewTema[float64]()
				a.Ema1.Period, a.Ema2.Period, a.Ema3.Period = c.P[0], c.P[1], c.P[2]
				if len(c.S) > 0 {
					a.Ema1.Smoothing, a.Ema2.Smoothing, a.Ema3.Smoothing = c.Sm(0), c.Sm(1), c.Sm(2)
				}
				return func(in []C) []C { return o1(a.Compute(in[0])) }, a.IdlePeriod()
			},
			Doc: "TEMA = (3 * EMA1) - (3 * EMA2) + EMA3; EMA1 = EMA(values); EMA2 = EMA(EMA1); EMA3 = EMA(EMA2)",
			Ref: func(c Config, in In) []ref.S {
				e1 := ref.EmaK(in[X], c.P[0], c.Sm(0))
				e2 := ref.EmaK(e1, c.P[1], c.Sm(1))
				e3 := ref.EmaK(e2, c.P[2], c.Sm(2))
				return []ref.S{ref.AddS(ref.SubS(ref.ScaleS(e1, 3), ref.ScaleS(e2, 3)), e3)}
			},
			PriceDeg: []int{1}, VolDeg: []int{0}, Recursive: true, NS: 3,
		},
		{
			Name: "Trima", Inputs: []string{X}, Params: []Param{per("period", 15)}, Outs: []string{"trima"},
			Build: func(c Config) (func([]C) []C, int) {
				a := trend.NewTrima[float64]()
				a.Period = c.P[0]
				return func(in []C) []C { return o1(a.Compute(in[0])) }, a.IdlePeriod()
			},
			Doc: "even period: TRIMA = SMA(period/2, SMA((period/2)+1, values)); odd: TRIMA = SMA((period+1)/2, SMA((period+1)/2, values))",
			Ref: func(c Config, in In) []ref.S {
				p := c.P[0]
				if p%2 == 0 {
					return []ref.S{ref.SmaDiv(ref.SmaDiv(in[X], p/2+1), p/2)}
				}
				return []ref.S{ref.SmaDiv(ref.SmaDiv(in[X], (p+1)/2), (p+1)/2)}
			},
			PriceDeg: []int{1}, VolDeg: []int{0}, Window: true,
		},
		{
			Name: "Trix", Inputs: []string{X}, Params: []Param{per("period", 15)}, Outs: []string{"trix"},
			Build: func(c Config) (func([]C) []C, int) {
				a := trend.NewTrix[float64]()
				a.Period = c.P[0]
				return func(in []C) []C { return o1(a.Compute(in[0])) }, a.IdlePeriod()
			},
			Doc: "EMA1 = EMA(period, values); EMA2 = EMA(period, EMA1); EMA3 = EMA(period, EMA2); TRIX = (EMA3 - Previous EMA3) / Previous EMA3",
			Ref: func(c Config, in In) []ref.S {
				e3 := ref.Ema(ref.Ema(ref.Ema(in[X], c.P[0]), c.P[0]), c.P[0])
				return []ref.S{ref.DivS(ref.Change(e3, 1), ref.Lag(e3, 1))}
			},
			PriceDeg: []int{0}, VolDeg: []int{0}, Recursive: true,
		},
		{
			Name: "Tsi", Inputs: []string{X}, Params: []Param{per("first", 25), per("second", 13)}, Outs: []string{"tsi"},
			Build: func(c Config) (func([]C) []C, int) {
				a := trend.NewTsiWith[float64](c.P[0], c.P[1])
				return func(in []C) []C { return o1(a.Compute(in[0])) }, a.IdlePeriod()
			},
			Doc: "PCDS = Ema(13, Ema(25, (Current - Prior))); APCDS = Ema(13, Ema(25, Abs(Current - Prior))); TSI = (PCDS / APCDS) * 100 (25 = first smoothing, applied first; 13 = second smoothing)",
			Ref: func(c Config, in In) []ref.S {
				pc := ref.Change(in[X], 1)
				f := func(s ref.S) ref.S { return ref.Ema(ref.Ema(s, c.P[0]), c.P[1]) }
				return []ref.S{ref.ScaleS(ref.DivS(f(pc), f(ref.AbsS(pc))), 100)}
			},
			Defect: &Defect{Key: "Tsi/second-smoothing-applied-first", Model: func(c Config, in In) []ref.S {
				pc := ref.Change(in[X], 1)
				f := func(s ref.S) ref.S { return ref.Ema(ref.Ema(s, c.P[1]), c.P[0]) }
				return []ref.S{ref.ScaleS(ref.DivS(f(pc), f(ref.AbsS(pc))), 100)}
			}},
			PriceDeg: []int{0}, VolDeg: []int{0}, Recursive: true,
		},
		{
			Name: "TypicalPrice", Inputs: []string{High, Low, Close}, Outs: []string{"tp"},
			Build: func(c Config) (func([]C) []C, int) {
				a := trend.NewTypicalPrice[float64]()
				return func(in []C) []C { return o1(a.Compute(in[0], in[1], in[2])) }, declared(a, 0)
			},
			Doc: "Typical Price = (High + Low + Closing) / 3", Ref: func(c Config, in In) []ref.S { return []ref.S{typical(in)} },
			PriceDeg: []int{1}, VolDeg: []int{0}, Window: true,
		},
		{
			Name: "Vwma", Inputs: []string{Close, Volume}, Params: []Param{per("period", 20)}, Outs: []string{"vwma"},
			Build: func(c Config) (func([]C) []C, int) {
				a := trend.NewVwma[float64]()
				a.Period = c.P[0]
				return func(in []C) []C { return o1(a.Compute(in[0], in[1])) }, a.IdlePeriod()
			},
			Doc: "VWMA = Sum(Price * Volume) / Sum(Volume)",
			Ref: func(c Config, in In) []ref.S {
				return []ref.S{ref.DivS(ref.WinSum(ref.MulS(in[Close], in[Volume]), c.P[0]), ref.WinSum(in[Volume], c.P[0]))}
			},
			PriceDeg: []int{1}, VolDeg: []int{0}, Window: true,
		},
		{
			Name: "WeightedClose", Inputs: []string{High, Low, Close}, Outs: []string{"wc"},
			Build: func(c Config) (func([]C) []C, int) {
				a := trend.NewWeightedClose[float64]()
				return func(in []C) []C { return o1(a.Compute(in[0], in[1], in[2])) }, a.IdlePeriod()
			},
			Doc: "Weighted Close = (High + Low + (Close * 2)) / 4",
			Ref: func(c Config, in In) []ref.S {
				return []ref.S{ref.Zip(func(x []ref.B) ref.B {
					return ref.Scale(ref.Add(ref.Add(x[0], x[1]), ref.Scale(x[2], 2)), 0.25)
				}, in[High], in[Low], in[Close])}
			},
			PriceDeg: []int{1}, VolDeg: []int{0}, Window: true,
		},
		{
			Name: "Wma", Inputs: []string{X}, Params: []Param{per("period", 5)}, Outs: []string{"wma"},
			Build: func(c Config) (func([]C) []C, int) {
				a := trend.NewWmaWith[float64](c.P[0])
				return func(in []C) []C { return o1(a.Compute(in[0])) }, a.IdlePeriod()
			},
			Doc:      "WMA = ((Value1 * 1/N) + (Value2 * 2/N) + ...) / 2",
			Ref:      func(c Config, in In) []ref.S { return []ref.S{wmaRef(in[X], c.P[0])} },
			PriceDeg: []int{1}, VolDeg: []int{0}, Window: true,
		},
	}
}

// mlsRef: moving least squares slope and intercept.
func mlsRef(x, y ref.S, p int) (ref.S, ref.S) {
	sxy, sx, sy, sx2 := ref.WinSum(ref.MulS(x, y), p), ref.WinSum(x, p), ref.WinSum(y, p), ref.WinSum(ref.MulS(x, x), p)
	fp := float64(p)
	m := ref.Zip(func(a []ref.B) ref.B {
		return ref.Div(ref.Sub(ref.Scale(a[0], fp), ref.Mul(a[1], a[2])), ref.Sub(ref.Scale(a[3], fp), ref.Mul(a[1], a[1])))
	}, sxy, sx, sy, sx2)
	b := ref.Zip(func(a []ref.B) ref.B { return ref.Div(ref.Sub(a[0], ref.Mul(a[1], a[2])), ref.Exact(fp)) }, sy, m, sx)
	return m, b
}
