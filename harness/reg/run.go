package reg

import (
	"verif/harness/gen"
	"verif/harness/pipe"
	"verif/harness/ref"
)

// Slices returns the input slices of the indicator, in Compute's parameter order.
func (ind Ind) Slices(b gen.Bars) [][]float64 {
	out := make([][]float64, len(ind.Inputs))
	for i, f := range ind.Inputs {
		out[i] = b.Field(f)
	}
	return out
}

// RefIn lifts the bars into exact reference series.
func (ind Ind) RefIn(b gen.Bars) In {
	in := In{}
	for _, f := range ind.Inputs {
		in[f] = ref.Lift(b.Field(f))
	}
	return in
}

// Run executes the real indicator on the bars.
func (ind Ind) Run(c Config, b gen.Bars, opt pipe.Opts) (pipe.Result[float64], int) {
	return ind.RunSlices(c, ind.Slices(b), opt)
}

// RunSlices executes the real indicator on explicit input slices (possibly of unequal lengths).
func (ind Ind) RunSlices(c Config, ins [][]float64, opt pipe.Opts) (pipe.Result[float64], int) {
	idle := 0
	res := pipe.Run(ins, opt, func(cs []<-chan float64) []<-chan float64 {
		run, w := ind.Build(c)
		idle = w
		return run(cs)
	})
	return res, idle
}

// Idle returns the declared idle period of a configuration.
func (ind Ind) Idle(c Config) int {
	c.PrevP, c.PrevF, c.PrevN = nil, nil, 0
	_, w := ind.Build(c)
	return w
}
