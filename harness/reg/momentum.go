package reg

import (
	"github.com/cinar/indicator/v2/momentum"
	"verif/harness/ref"
)

func mfmRef(in In) ref.S {
	return ref.Zip(func(x []ref.B) ref.B {
		// ((Closing - Low) - (High - Closing)) / (High - Low)
		return ref.Div(ref.Sub(ref.Sub(x[2], x[1]), ref.Sub(x[0], x[2])), ref.Sub(x[0], x[1]))
	}, in[High], in[Low], in[Close])
}

func adRef(in In) ref.S { return ref.Cum(ref.MulS(mfmRef(in), in[Volume]), 0) }

func rsiRef(x ref.S, p int) ref.S {
	chg := ref.Change(x, 1)
	g := ref.Rma(ref.Map(chg, func(b ref.B) ref.B { return ref.Max(b, ref.Exact(0)) }), p)
	l := ref.Rma(ref.Map(chg, func(b ref.B) ref.B { return ref.Max(ref.Neg(b), ref.Exact(0)) }), p)
	return ref.Zip(func(a []ref.B) ref.B {
		// RS = Average Gain / Average Loss; RSI = 100 - (100 / (1 + RS))
		rs := ref.Div(a[0], a[1])
		return ref.AddC(ref.Neg(ref.Div(ref.Exact(100), ref.AddC(rs, 1))), 100)
	}, g, l)
}

func ppoRef(x ref.S, c Config) []ref.S {
	short, long, signal := c.P[0], c.P[1], c.P[2]
	el := ref.EmaK(x, long, c.Sm(1))
	p := ref.ScaleS(ref.DivS(ref.SubS(ref.EmaK(x, short, c.Sm(0)), el), el), 100)
	s := ref.EmaK(p, signal, c.Sm(2))
	return []ref.S{ref.Tail(p, s.At), s, ref.SubS(p, s)}
}

func momentumInds() []Ind {
	per := func(name string, def int) Param { return Param{name, def} }
	return []Ind{
		{
			Name: "AwesomeOscillator", Inputs: []string{High, Low}, Params: []Param{per("short", 5), per("long", 34)}, Outs: []string{"ao"},
			Fix: func(c *Config) { sort2(&c.P[0], &c.P[1]) },
			Build: func(c Config) (func([]C) []C, int) {
				a := momentum.NewAwesomeOscillator[float64]()
				a.ShortSma.Period, a.LongSma.Period = c.P[0], c.P[1]
				return func(in []C) []C { return o1(a.Compute(in[0], in[1])) }, a.IdlePeriod()
			},
			Doc: "Median Price = ((Low + High) / 2). AO = 5-Period SMA - 34-Period SMA.",
			Ref: func(c Config, in In) []ref.S {
				med := ref.ScaleS(ref.AddS(in[High], in[Low]), 0.5)
				return []ref.S{ref.SubS(ref.SmaDiv(med, c.P[0]), ref.SmaDiv(med, c.P[1]))}
			},
			PriceDeg: []int{1}, VolDeg: []int{0}, Window: true,
		},
		{
			Name: "ChaikinOscillator", Inputs: []string{High, Low, Close, Volume}, Params: []Param{per("short", 3), per("long", 10)}, Outs: []string{"co", "ad"},
			Fix: func(c *Config) { sort2(&c.P[0], &c.P[1]) },
			Build: func(c Config) (func([]C) []C, int) {
				a := momentum.NewChaikinOscillator[float64]()
				a.ShortEma.Period, a.LongEma.Period = c.P[0], c.P[1]
				if len(c.S) > 0 {
					a.ShortEma.Smoothing, a.LongEma.Smoothing = c.Sm(0), c.Sm(1)
				}
				return func(in []C) []C { return o2(a.Compute(in[0], in[1], in[2], in[3])) }, a.IdlePeriod()
			},
			Doc: "CO = Ema(fastPeriod, AD) - Ema(slowPeriod, AD); second output: the A/D line",
			Ref: func(c Config, in In) []ref.S {
				ad := adRef(in)
				co := ref.SubS(ref.EmaK(ad, c.P[0], c.Sm(0)), ref.EmaK(ad, c.P[1], c.Sm(1)))
				return []ref.S{co, ref.Tail(ad, co.At)}
			},
			PriceDeg: []int{0, 0}, VolDeg: []int{1, 1}, Recursive: true, NS: 2,
		},
		{
			Name: "IchimokuCloud", Inputs: []string{High, Low, Close}, Params: []Param{per("conversion", 9), per("base", 26), per("leading", 52), per("lagging", 26)},
			Outs: []string{"conversion", "base", "spanA", "spanB", "lagging"},
			Fix:  func(c *Config) { sort2(&c.P[0], &c.P[1]); sort2(&c.P[1], &c.P[2]); sort2(&c.P[0], &c.P[1]) },
			Build: func(c Config) (func([]C) []C, int) {
				a := momentum.NewIchimokuCloud[float64]()
				a.ConversionMax.Period, a.ConversionMin.Period = c.P[0], c.P[0]
				a.BaseMax.Period, a.BaseMin.Period = c.P[1], c.P[1]
				a.LeadingMax.Period, a.LeadingMin.Period = c.P[2], c.P[2]
				a.LaggingPeriod = c.P[3]
				return func(in []C) []C { return o5(a.Compute(in[0], in[1], in[2])) }, a.IdlePeriod()
			},
			Doc: "Conversion = (9-Period High + 9-Period Low) / 2; Base = (26-Period High + 26-Period Low) / 2; Span A = (Conversion + Base) / 2; Span B = (52-Period High + 52-Period Low) / 2; Lagging = Closing plotted 26 days in the past, read causally as close[t-lag] (0 while t < lag), the only reading compatible with C04.",
			Ref: func(c Config, in In) []ref.S {
				mid := func(p int) ref.S {
					return ref.ScaleS(ref.AddS(ref.WinMax(in[High], p), ref.WinMin(in[Low], p)), 0.5)
				}
				conv, base, lead := mid(c.P[0]), mid(c.P[1]), mid(c.P[2])
				at := lead.At
				lag := ref.S{At: 0}
				cl := in[Close]
				for p := 0; p < cl.End(); p++ {
					if p < c.P[3] {
						lag.V = append(lag.V, ref.Exact(0))
					} else {
						lag.V = append(lag.V, cl.V[p-c.P[3]])
					}
				}
				return []ref.S{ref.Tail(conv, at), ref.Tail(base, at), ref.Tail(ref.ScaleS(ref.AddS(conv, base), 0.5), at), lead, ref.Tail(lag, at)}
			},
			PriceDeg: []int{1, 1, 1, 1, 1}, VolDeg: []int{0, 0, 0, 0, 0}, Window: true,
		},
		{
			Name: "Ppo", Inputs: []string{X}, Params: []Param{per("short", 12), per("long", 26), per("signal", 9)}, Outs: []string{"ppo", "signal", "histogram"},
			Fix: func(c *Config) { sort2(&c.P[0], &c.P[1]) },
			Build: func(c Config) (func([]C) []C, int) {
				a := momentum.NewPpo[float64]()
				a.ShortEma.Period, a.LongEma.Period, a.SignalEma.Period = c.P[0], c.P[1], c.P[2]
				if len(c.S) > 0 {
					a.ShortEma.Smoothing, a.LongEma.Smoothing, a.SignalEma.Smoothing = c.Sm(0), c.Sm(1), c.Sm(2)
				}
				return func(in []C) []C { return o3(a.Compute(in[0])) }, a.IdlePeriod()
			},
			Doc:      "PPO = ((EMA(short) - EMA(long)) / EMA(long)) * 100; Signal = EMA(9, PPO); Histogram = PPO - Signal",
			Ref:      func(c Config, in In) []ref.S { return ppoRef(in[X], c) },
			PriceDeg: []int{0, 0, 0}, VolDeg: []int{0, 0, 0}, Recursive: true, NS: 3,
		},
		{
			Name: "Pvo", Inputs: []string{Volume}, Params: []Param{per("short", 12), per("long", 26), per("signal", 9)}, Outs: []string{"pvo", "signal", "histogram"},
			Fix: func(c *Config) { sort2(&c.P[0], &c.P[1]) },
			Build: func(c Config) (func([]C) []C, int) {
				a := momentum.NewPvo[float64]()
				a.ShortEma.Period, a.LongEma.Period, a.SignalEma.Period = c.P[0], c.P[1], c.P[2]
				if len(c.S) > 0 {
					a.ShortEma.Smoothing, a.LongEma.Smoothing, a.SignalEma.Smoothing = c.Sm(0), c.Sm(1), c.Sm(2)
				}
				return func(in []C) []C { return o3(a.Compute(in[0])) }, a.IdlePeriod()
			},
			Doc:      "PVO = ((EMA(short, volumes) - EMA(long, volumes)) / EMA(long, volumes)) * 100; Signal = EMA(9, PVO); Histogram = PVO - Signal",
			Ref:      func(c Config, in In) []ref.S { return ppoRef(in[Volume], c) },
			PriceDeg: []int{0, 0, 0}, VolDeg: []int{0, 0, 0}, Recursive: true, NS: 3,
		},
		{
			Name: "Qstick", Inputs: []string{Open, Close}, Params: []Param{per("period", 20)}, Outs: []string{"qs"},
			Build: func(c Config) (func([]C) []C, int) {
				a := momentum.NewQstick[float64]()
				a.Sma.Period = c.P[0]
				return func(in []C) []C { return o1(a.Compute(in[0], in[1])) }, a.IdlePeriod()
			},
			Doc:      "QS = SMA(Closings - Openings)",
			Ref:      func(c Config, in In) []ref.S { return []ref.S{ref.SmaDiv(ref.SubS(in[Close], in[Open]), c.P[0])} },
			PriceDeg: []int{1}, VolDeg: []int{0}, Window: true,
		},
		{
			Name: "Rsi", Inputs: []string{X}, Params: []Param{per("period", 14)}, Outs: []string{"rsi"},
			Build: func(c Config) (func([]C) []C, int) {
				a := momentum.NewRsiWithPeriod[float64](c.P[0])
				return func(in []C) []C { return o1(a.Compute(in[0])) }, a.IdlePeriod()
			},
			Doc:      "RS = Average Gain / Average Loss (rolling moving averages of the positive / negative closing changes); RSI = 100 - (100 / (1 + RS))",
			Ref:      func(c Config, in In) []ref.S { return []ref.S{rsiRef(in[X], c.P[0])} },
			PriceDeg: []int{0}, VolDeg: []int{0}, Recursive: true,
		},
		{
			Name: "StochasticOscillator", Inputs: []string{High, Low, Close}, Params: []Param{per("minmax", 14), per("sma", 3)}, Outs: []string{"k", "d"},
			Build: func(c Config) (func([]C) []C, int) {
				a := momentum.NewStochasticOscillator[float64]()
				a.Max.Period, a.Min.Period, a.Sma.Period = c.P[0], c.P[0], c.P[1]
				return func(in []C) []C { return o2(a.Compute(in[0], in[1], in[2])) }, a.IdlePeriod()
			},
			Doc: "K = (Closing - Lowest Low) / (Highest High - Lowest Low) * 100; D = 3-Period SMA of K",
			Ref: func(c Config, in In) []ref.S {
				hh, ll := ref.WinMax(in[High], c.P[0]), ref.WinMin(in[Low], c.P[0])
				k := ref.ScaleS(ref.DivS(ref.SubS(in[Close], ll), ref.SubS(hh, ll)), 100)
				d := ref.SmaDiv(k, c.P[1])
				return []ref.S{ref.Tail(k, d.At), d}
			},
			PriceDeg: []int{0, 0}, VolDeg: []int{0, 0}, Window: true,
		},
		{
			Name: "StochasticRsi", Inputs: []string{X}, Params: []Param{per("rsi", 14), per("window", 14)}, Outs: []string{"stochrsi"},
			Build: func(c Config) (func([]C) []C, int) {
				// the RSI length and the min/max window are separate exported fields
				a := momentum.NewStochasticRsiWithPeriod[float64](c.P[1])
				a.Rsi.Rma.Period = c.P[0]
				return func(in []C) []C { return o1(a.Compute(in[0])) }, a.IdlePeriod()
			},
			Doc: "Stochastic RSI = (RSI - Min(RSI)) / (Max(RSI) - Min(RSI))",
			Ref: func(c Config, in In) []ref.S {
				r := rsiRef(in[X], c.P[0])
				mn, mx := ref.WinMin(r, c.P[1]), ref.WinMax(r, c.P[1])
				return []ref.S{ref.DivS(ref.SubS(r, mn), ref.SubS(mx, mn))}
			},
			Defect: &Defect{Key: "StochasticRsi/undefined-rsi-never-leaves-the-moving-extremes", Model: func(c Config, in In) []ref.S {
				// once an undefined RSI (0/0 on a flat run) entered the moving min/max trees it can
				// not be removed again (NaN is never found), so every later value is unspecified
				r := ref.PoisonAfterBad(rsiRef(in[X], c.P[0]))
				mn, mx := ref.WinMin(r, c.P[1]), ref.WinMax(r, c.P[1])
				return []ref.S{ref.DivS(ref.SubS(r, mn), ref.SubS(mx, mn))}
			}},
			PriceDeg: []int{0}, VolDeg: []int{0}, Recursive: true,
		},
		{
			Name: "WilliamsR", Inputs: []string{High, Low, Close}, Params: []Param{per("period", 14)}, Outs: []string{"wr"},
			Build: func(c Config) (func([]C) []C, int) {
				a := momentum.NewWilliamsR[float64]()
				a.Max.Period, a.Min.Period = c.P[0], c.P[0]
				return func(in []C) []C { return o1(a.Compute(in[0], in[1], in[2])) }, a.IdlePeriod()
			},
			Doc: "WR = (Highest High - Closing) / (Highest High - Lowest Low) * -100.",
			Ref: func(c Config, in In) []ref.S {
				hh, ll := ref.WinMax(in[High], c.P[0]), ref.WinMin(in[Low], c.P[0])
				return []ref.S{ref.ScaleS(ref.DivS(ref.SubS(hh, in[Close]), ref.SubS(hh, ll)), -100)}
			},
			PriceDeg: []int{0}, VolDeg: []int{0}, Window: true,
		},
	}
}
