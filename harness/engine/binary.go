package engine

import (
	"fmt"
	"os"
	"os/exec"
	"path/filepath"
	"sync"
)

var (
	binMu   sync.Mutex
	binDir  string
	binDone = map[string]string{}
)

// Binary builds a main package of the library (from /repo's working tree, through the module's
// replace directive) once per process and returns the path of the executable. The directory lives
// under the temporary directory of the run and is removed by Main.
func Binary(name, importPath string) (string, error) {
	binMu.Lock()
	defer binMu.Unlock()
	if p, ok := binDone[name]; ok {
		return p, nil
	}
	if binDir == "" {
		d, err := os.MkdirTemp("", "verif-bin-")
		if err != nil {
			return "", err
		}
		binDir = d
	}
	out := filepath.Join(binDir, name)
	cmd := exec.Command("go", "build", "-o", out, importPath)
	if b, err := cmd.CombinedOutput(); err != nil {
		return "", fmt.Errorf("go build %s: %v: %s", importPath, err, b)
	}
	binDone[name] = out
	return out, nil
}

func removeBinaries() {
	binMu.Lock()
	defer binMu.Unlock()
	if binDir != "" {
		_ = os.RemoveAll(binDir)
	}
}
