package engine

import (
	"fmt"
	"os"
	"os/exec"
	"path/filepath"
	"strconv"
	"strings"
	"sync"
	"time"
)

var (
	binMu   sync.Mutex
	binDir  string
	binDone = map[string]string{}
)

// Binary builds a main package of the library (from /repo's working tree, through the module's
// replace directive) once per process and returns the path of the executable. The directory lives
// under the temporary directory of the run and is removed by Main.
func Binary(name, importPath string) (string, error) {
	binMu.Lock()
	defer binMu.Unlock()
	if p, ok := binDone[name]; ok {
		return p, nil
	}
	if binDir == "" {
		d, err := os.MkdirTemp("", "verif-bin-")
		if err != nil {
			return "", err
		}
		binDir = d
	}
	out := filepath.Join(binDir, name)
	cmd := exec.Command("go", "build", "-o", out, importPath)
	if b, err := cmd.CombinedOutput(); err != nil {
		return "", fmt.Errorf("go build %s: %v: %s", importPath, err, b)
	}
	binDone[name] = out
	return out, nil
}

func removeBinaries() {
	binMu.Lock()
	defer binMu.Unlock()
	if binDir != "" {
		_ = os.RemoveAll(binDir)
	}
}

// RunProgram starts cmd and waits for it. A child that is asleep (process state S) and has not
// consumed any CPU time for 30 consecutive seconds is taken to be stuck, is killed, and stuck=true
// is returned. Being slow does not count: a process that is waiting for a CPU on a loaded machine
// is runnable (state R), and one that computes consumes CPU time.
func RunProgram(cmd *exec.Cmd) (err error, stuck bool) {
	if err := cmd.Start(); err != nil {
		return err, false
	}
	done := make(chan error, 1)
	go func() { done <- cmd.Wait() }()
	stat := fmt.Sprintf("/proc/%d/stat", cmd.Process.Pid)
	lastCPU, idle := int64(-1), 0
	tick := time.NewTicker(250 * time.Millisecond)
	defer tick.Stop()
	for {
		select {
		case err := <-done:
			return err, false
		case <-tick.C:
			b, rerr := os.ReadFile(stat)
			if rerr != nil {
				continue
			}
			// pid (comm) state ppid ... utime stime
			s := string(b)
			if i := strings.LastIndexByte(s, ')'); i >= 0 {
				f := strings.Fields(s[i+1:])
				if len(f) > 13 {
					ut, _ := strconv.ParseInt(f[11], 10, 64)
					st, _ := strconv.ParseInt(f[12], 10, 64)
					if f[0] == "S" && ut+st == lastCPU {
						idle++
					} else {
						idle = 0
					}
					lastCPU = ut + st
				}
			}
			if idle >= 120 {
				_ = cmd.Process.Kill()
				<-done
				return fmt.Errorf("killed: asleep without consuming CPU time for 30 s"), true
			}
		}
	}
}
