// Package engine runs properties as generated-input checks (pgregory.net/rapid), records what
// was explored (evaluations, distinct non-trivial cases, class distribution, samples), writes a
// JSON reproduction of every failing case and replays saved cases without the library.
package engine

import (
	"encoding/binary"
	"encoding/json"
	"flag"
	"fmt"
	"hash/fnv"
	"os"
	"path/filepath"
	"runtime"
	"sort"
	"strings"
	"sync"
	"testing"
	"time"

	"pgregory.net/rapid"
)

var (
	flagCase     = flag.String("case", "", "replay the saved case in this file instead of generating")
	flagShard    = flag.Int("shard", 0, "shard number of this process")
	flagNShards  = flag.Int("nshards", 1, "number of shard processes of this run")
	flagTier     = flag.String("tier", "quick", "quick or thorough")
	flagShardOut = flag.String("shardout", "", "file to which this process writes its counters")
	flagRoot     = flag.String("verifroot", "/verif", "verification root directory")
	flagSubject  = flag.String("subject", "", "restrict the run to subjects containing this text")
)

// Tier reports the tier the driver asked for.
func Tier() string { return *flagTier }

// Thorough reports whether the thorough tier runs.
func Thorough() bool { return *flagTier == "thorough" }

// Shard reports the shard number of this process.
func Shard() int { return *flagShard }

// Outcome is the verdict of one executed case.
type Outcome struct {
	// Fail is non-empty when the property is violated by this case.
	Fail string
	// Known lists the known-finding keys (subject/defect-model) whose defect model explains this
	// case exactly; the case is counted, not reported, provided every key is listed in
	// KNOWN_FINDINGS.txt.
	Known []string
	// NonTrivial says whether the case is non-trivial by the property's stated rule.
	NonTrivial bool
	// Key is the fingerprint that makes two cases "the same".
	Key string
	// Classes are labels for the distribution counters.
	Classes []string
	// Counters are added to the run's named counters.
	Counters map[string]int
}

// Add increments a named counter.
func (o *Outcome) Add(name string, n int) {
	if o.Counters == nil {
		o.Counters = map[string]int{}
	}
	o.Counters[name] += n
}

// Class records a class label.
func (o *Outcome) Class(name string) { o.Classes = append(o.Classes, name) }

// Failf records a violation (the first one wins).
func (o *Outcome) Failf(format string, args ...any) {
	if o.Fail == "" {
		o.Fail = fmt.Sprintf(format, args...)
	}
}

// KnownAs records agreement with a known defect model.
func (o *Outcome) KnownAs(key string) {
	for _, k := range o.Known {
		if k == key {
			return
		}
	}
	o.Known = append(o.Known, key)
}

// Prop is a property over generated cases of type C for one subject.
type Prop[C any] struct {
	ID      string
	Subject string
	Gen     func(*rapid.T) C
	Check   func(C) Outcome
	// Scale multiplies the number of checks for this subject (0 means 1); the count itself comes
	// from -rapid.checks.
	Serial bool
}

// AnyProp is the type-erased interface the runners use.
type AnyProp interface {
	PropID() string
	PropSubject() string
	run(t *testing.T)
	replay(raw json.RawMessage) Outcome
	// Fuzz runs one generated case (for rapid.MakeFuzz targets under native go fuzzing).
	Fuzz(rt *rapid.T)
}

func (p Prop[C]) PropID() string      { return p.ID }
func (p Prop[C]) PropSubject() string { return p.Subject }

type subjectStats struct {
	Evaluations int            `json:"evaluations"`
	NonTrivial  int            `json:"nontrivial_evaluations"`
	Known       map[string]int `json:"known"`
	Classes     map[string]int `json:"classes"`
	Counters    map[string]int `json:"counters"`
	Samples     []any          `json:"samples"`
	keys        map[uint64]struct{}
	failed      bool
}

type collector struct {
	mu       sync.Mutex
	id       string
	subjects map[string]*subjectStats
	failures []failure
}

type failure struct {
	Subject string `json:"subject"`
	Replay  string `json:"replay"`
	Msg     string `json:"msg"`
}

var coll = &collector{subjects: map[string]*subjectStats{}}

func (c *collector) get(subject string) *subjectStats {
	s := c.subjects[subject]
	if s == nil {
		s = &subjectStats{Known: map[string]int{}, Classes: map[string]int{}, Counters: map[string]int{}, keys: map[uint64]struct{}{}}
		c.subjects[subject] = s
	}
	return s
}

func hashKey(s string) uint64 {
	h := fnv.New64a()
	_, _ = h.Write([]byte(s))
	return h.Sum64()
}

const maxSamples = 3

func (c *collector) record(subject string, cas any, o Outcome) {
	c.mu.Lock()
	defer c.mu.Unlock()
	s := c.get(subject)
	s.Evaluations++
	if o.NonTrivial {
		s.NonTrivial++
		s.keys[hashKey(subject+"\x00"+o.Key)] = struct{}{}
	}
	for _, k := range o.Known {
		s.Known[k]++
	}
	for _, k := range o.Classes {
		s.Classes[k]++
	}
	for k, v := range o.Counters {
		s.Counters[k] += v
	}
	// Samples: the first non-trivial case, then deterministic reservoir by evaluation number.
	if o.NonTrivial && o.Fail == "" && (len(s.Samples) < maxSamples || s.NonTrivial%97 == 0) {
		var smp any
		if raw, err := json.Marshal(cas); err == nil {
			if len(raw) > 6000 {
				smp = string(raw[:6000]) + "...(truncated)"
			} else {
				smp = json.RawMessage(raw)
			}
		} else {
			smp = fmt.Sprintf("%+v", cas)
		}
		if len(s.Samples) < maxSamples {
			s.Samples = append(s.Samples, smp)
		} else {
			s.Samples[1+(s.NonTrivial/97)%(maxSamples-1)] = smp
		}
	}
}

func safeName(s string) string {
	r := strings.NewReplacer("/", "_", " ", "_", "(", "", ")", "", ",", "_", "*", "", "[", "", "]", "", ":", "_")
	return r.Replace(s)
}

func replayDir() string { return filepath.Join(*flagRoot, "replays") }

type replayFile struct {
	Property string          `json:"property"`
	Subject  string          `json:"subject"`
	Msg      string          `json:"msg,omitempty"`
	Case     json.RawMessage `json:"case"`
	// Zone: the process-local time zone the case ran under ("" = as found, UTC in this sandbox)
	Zone string `json:"zone,omitempty"`
}

// The process-local time zone is part of the environment a library runs in (zone-less dates read
// from files are interpreted in SOME zone): a third of the shards run with time.Local set to a
// fixed zone east of UTC, a third west of it. Replay files record it.
var zones = map[string]int{"Etc/GMT-2": 2 * 3600, "Pacific/Marquesas": -(9*3600 + 1800)}
var localZone string

// LocalZone is the name of the zone installed by SetZone ("" = none).
func LocalZone() string { return localZone }

// SetZone installs a process-local zone (and TZ for child processes); "" leaves things alone.
func SetZone(name string) {
	off, ok := zones[name]
	if !ok {
		return
	}
	localZone = name
	time.Local = time.FixedZone(name, off)
	_ = os.Setenv("TZ", name)
}

func writeReplay(path, id, subject, msg string, cas any) {
	raw, err := json.Marshal(cas)
	if err != nil {
		raw = []byte(fmt.Sprintf("%q", fmt.Sprintf("unmarshalable case: %v: %+v", err, cas)))
	}
	b, _ := json.MarshalIndent(replayFile{Property: id, Subject: subject, Msg: msg, Case: raw, Zone: localZone}, "", " ")
	_ = os.MkdirAll(filepath.Dir(path), 0o755)
	_ = os.WriteFile(path, b, 0o644)
}

// pending keeps one open file per subject holding the case being executed, so that a
// process-killing failure leaves a reproducer behind.
type pending struct {
	f    *os.File
	path string
}

func openPending(id, subject string) *pending {
	dir := filepath.Join(replayDir(), ".pending")
	_ = os.MkdirAll(dir, 0o755)
	path := filepath.Join(dir, fmt.Sprintf("%s-%s-shard%d.json", id, safeName(subject), *flagShard))
	f, err := os.OpenFile(path, os.O_CREATE|os.O_RDWR|os.O_TRUNC, 0o644)
	if err != nil {
		return &pending{}
	}
	return &pending{f: f, path: path}
}

func (p *pending) set(id, subject string, cas any) {
	if p.f == nil {
		return
	}
	raw, err := json.Marshal(cas)
	if err != nil {
		return
	}
	b, _ := json.Marshal(replayFile{Property: id, Subject: subject, Msg: "process died while executing this case", Case: raw, Zone: localZone})
	_ = p.f.Truncate(0)
	_, _ = p.f.WriteAt(b, 0)
}

func (p *pending) done() {
	if p.f == nil {
		return
	}
	_ = p.f.Close()
	_ = os.Remove(p.path)
}

var knownOnce sync.Once
var knownKeys map[string]string // "Cxx key" -> text

func loadKnown() {
	knownKeys = map[string]string{}
	b, err := os.ReadFile(filepath.Join(*flagRoot, "KNOWN_FINDINGS.txt"))
	if err != nil {
		return
	}
	for _, line := range strings.Split(string(b), "\n") {
		line = strings.TrimSpace(line)
		if !strings.HasPrefix(line, "known:") {
			continue
		}
		fields := strings.Fields(line)
		var prop, key string
		rest := []string{}
		for _, f := range fields[1:] {
			switch {
			case strings.HasPrefix(f, "property=") && prop == "":
				prop = strings.TrimPrefix(f, "property=")
			case strings.HasPrefix(f, "key=") && key == "":
				key = strings.TrimPrefix(f, "key=")
			default:
				rest = append(rest, f)
			}
		}
		if prop != "" && key != "" {
			knownKeys[prop+" "+key] = strings.Join(rest, " ")
		}
	}
}

// IsListed reports whether a known-finding key is listed for the property.
func IsListed(id, key string) bool {
	knownOnce.Do(loadKnown)
	_, ok := knownKeys[id+" "+key]
	return ok
}

func (p Prop[C]) exec(c C) Outcome {
	o := p.Check(c)
	if o.Fail == "" {
		for _, k := range o.Known {
			if !IsListed(p.ID, k) {
				o.Fail = fmt.Sprintf("behaviour matches defect model %q, which is not listed in KNOWN_FINDINGS.txt for %s", k, p.ID)
				break
			}
		}
	}
	return o
}

func (p Prop[C]) replayPath() string {
	return filepath.Join(replayDir(), fmt.Sprintf("%s-%s.json", p.ID, safeName(p.Subject)))
}

func (p Prop[C]) run(t *testing.T) {
	pend := openPending(p.ID, p.Subject)
	defer pend.done()
	coll.mu.Lock()
	coll.id = p.ID
	coll.get(p.Subject)
	coll.mu.Unlock()
	rapid.Check(t, func(rt *rapid.T) {
		c := p.Gen(rt)
		pend.set(p.ID, p.Subject, c)
		o := p.exec(c)
		coll.record(p.Subject, c, o)
		if o.Fail != "" {
			path := p.replayPath()
			writeReplay(path, p.ID, p.Subject, o.Fail, c)
			coll.mu.Lock()
			s := coll.get(p.Subject)
			if !s.failed {
				s.failed = true
				coll.failures = append(coll.failures, failure{Subject: p.Subject, Replay: path, Msg: o.Fail})
			} else {
				for i := range coll.failures {
					if coll.failures[i].Subject == p.Subject {
						coll.failures[i].Msg = o.Fail
					}
				}
			}
			coll.mu.Unlock()
			rt.Fatalf("%s %s: %s", p.ID, p.Subject, o.Fail)
		}
	})
}

// Fuzz draws one case from the fuzzer-provided bit stream and fails on a violation.
func (p Prop[C]) Fuzz(rt *rapid.T) {
	c := p.Gen(rt)
	o := p.exec(c)
	if o.Fail != "" {
		writeReplay(p.replayPath(), p.ID, p.Subject, o.Fail, c)
		rt.Fatalf("%s %s: %s", p.ID, p.Subject, o.Fail)
	}
}

func (p Prop[C]) replay(raw json.RawMessage) Outcome {
	var c C
	if err := json.Unmarshal(raw, &c); err != nil {
		return Outcome{Fail: "cannot decode case: " + err.Error()}
	}
	return p.exec(c)
}

// RunAll runs every property as a subtest. With parallel set, subjects run concurrently.
func RunAll(t *testing.T, props []AnyProp, parallel bool) {
	if *flagCase != "" {
		t.Skip("replay mode")
	}
	for _, p := range props {
		p := p
		if *flagSubject != "" && !strings.Contains(p.PropSubject(), *flagSubject) {
			continue
		}
		// A change that breaks something every subject depends on makes every subject fail, each
		// spending its shrink budget (and, for hangs, its detection latency): once three subjects
		// of a shard have reported a violation the verdict is settled, the rest is skipped (and
		// counted), so that the run ends as a VIOLATION instead of running into its time limit.
		coll.mu.Lock()
		failed := len(coll.failures)
		coll.mu.Unlock()
		// (the same when a reported hang has left hundreds of goroutines behind: every later
		// census would have to wade through them)
		if failed >= 3 || (failed >= 1 && runtime.NumGoroutine() > 400) {
			skippedSubjects++
			continue
		}
		t.Run(safeName(p.PropSubject()), func(t *testing.T) {
			if parallel {
				t.Parallel()
			}
			p.run(t)
		})
	}
	if skippedSubjects > 0 {
		SetExtra("subjects_skipped_after_three_violations", skippedSubjects)
	}
}

var skippedSubjects int

// Replay executes the case saved in -case, or every regression case saved under
// replays/regress for this property when -case is empty.
func Replay(t *testing.T, id string, props []AnyProp) {
	var files []string
	if *flagCase != "" {
		files = []string{*flagCase}
	} else {
		files, _ = filepath.Glob(filepath.Join(replayDir(), "regress", id+"-*.json"))
		sort.Strings(files)
	}
	for _, f := range files {
		b, err := os.ReadFile(f)
		if err != nil {
			t.Fatalf("read %s: %v", f, err)
		}
		var rf replayFile
		if err := json.Unmarshal(b, &rf); err != nil {
			t.Fatalf("decode %s: %v", f, err)
		}
		if rf.Property != id {
			continue
		}
		if rf.Zone != "" {
			SetZone(rf.Zone)
		}
		found := false
		for _, p := range props {
			if p.PropSubject() != rf.Subject {
				continue
			}
			found = true
			o := p.replay(rf.Case)
			coll.mu.Lock()
			coll.id = id
			s := coll.get("replay:" + rf.Subject)
			s.Evaluations++
			for _, k := range o.Known {
				s.Known[k]++
			}
			coll.mu.Unlock()
			if o.Fail != "" {
				coll.mu.Lock()
				coll.failures = append(coll.failures, failure{Subject: rf.Subject, Replay: f, Msg: o.Fail})
				coll.mu.Unlock()
				t.Errorf("REPLAY-FAIL %s %s %s: %s", id, rf.Subject, f, o.Fail)
			} else {
				t.Logf("REPLAY-OK %s %s %s known=%v", id, rf.Subject, f, o.Known)
			}
		}
		if !found {
			t.Errorf("REPLAY-FAIL %s: no subject %q", f, rf.Subject)
		}
	}
}

type shardFile struct {
	ID       string                   `json:"id"`
	Shard    int                      `json:"shard"`
	Subjects map[string]*subjectStats `json:"subjects"`
	Failures []failure                `json:"failures"`
	Known    map[string]string        `json:"known_text"`
	Extra    map[string]any           `json:"extra,omitempty"`
}

var extraMu sync.Mutex
var extra = map[string]any{}

// SetExtra attaches a free-form value to the evidence of this run.
func SetExtra(key string, v any) {
	extraMu.Lock()
	defer extraMu.Unlock()
	extra[key] = v
}

// Main is to be called from TestMain: it runs the tests and then writes the shard file.
func Main(m *testing.M) {
	flag.Parse()
	if *flagShardOut != "" {
		switch *flagShard % 3 {
		case 1:
			SetZone("Etc/GMT-2")
		case 2:
			SetZone("Pacific/Marquesas")
		}
	}
	code := m.Run()
	flush()
	removeBinaries()
	os.Exit(code)
}

func flush() {
	coll.mu.Lock()
	defer coll.mu.Unlock()
	knownOnce.Do(loadKnown)
	// Print failures and known findings in the form the driver greps for.
	for _, f := range coll.failures {
		fmt.Printf("VERIF-VIOLATION property=%s subject=%q replay=%s msg=%q\n", coll.id, f.Subject, f.Replay, f.Msg)
	}
	knownText := map[string]string{}
	for _, s := range coll.subjects {
		for k := range s.Known {
			knownText[k] = knownKeys[coll.id+" "+k]
		}
	}
	if *flagShardOut == "" {
		return
	}
	sf := shardFile{ID: coll.id, Shard: *flagShard, Subjects: coll.subjects, Failures: coll.failures, Known: knownText, Extra: extra}
	b, _ := json.Marshal(sf)
	_ = os.MkdirAll(filepath.Dir(*flagShardOut), 0o755)
	_ = os.WriteFile(*flagShardOut, b, 0o644)
	// distinct keys, as 8-byte little-endian words prefixed by the subject table
	kf, err := os.Create(*flagShardOut + ".keys")
	if err != nil {
		return
	}
	defer kf.Close()
	names := make([]string, 0, len(coll.subjects))
	for n := range coll.subjects {
		names = append(names, n)
	}
	sort.Strings(names)
	var buf [8]byte
	for _, n := range names {
		for k := range coll.subjects[n].keys {
			binary.LittleEndian.PutUint64(buf[:], k)
			_, _ = kf.Write(buf[:])
		}
	}
}

// Enumerate runs a property over an explicit, finite list of cases (no random generation); used
// for exhaustive sweeps of small spaces. It stops at the first failing case.
func Enumerate[C any](t *testing.T, p Prop[C], next func() (C, bool)) int {
	pend := openPending(p.ID, p.Subject)
	defer pend.done()
	coll.mu.Lock()
	coll.id = p.ID
	coll.get(p.Subject)
	coll.mu.Unlock()
	n := 0
	for {
		c, ok := next()
		if !ok {
			return n
		}
		n++
		pend.set(p.ID, p.Subject, c)
		o := p.exec(c)
		coll.record(p.Subject, c, o)
		if o.Fail != "" {
			path := p.replayPath()
			writeReplay(path, p.ID, p.Subject, o.Fail, c)
			coll.mu.Lock()
			coll.failures = append(coll.failures, failure{Subject: p.Subject, Replay: path, Msg: o.Fail})
			coll.mu.Unlock()
			t.Errorf("%s %s: %s", p.ID, p.Subject, o.Fail)
			return n
		}
	}
}

// ReplayRaw executes a property on a JSON-encoded case (used by native fuzz targets).
func ReplayRaw(p AnyProp, raw []byte) Outcome { return p.replay(raw) }

var (
	onceMu   sync.Mutex
	onceSeen = map[string]bool{}
)

// OncePerRun reports true exactly once per run for the given key, and only in the one shard the
// key is assigned to (a hash of the key modulo the number of shards): for the single expensive case a subject gets per run (a very long input, say).
func OncePerRun(key string) bool {
	h := 0
	for _, c := range key {
		h = (h*31 + int(c)) & 0xffff
	}
	if n := *flagNShards; n > 1 && h%n != *flagShard {
		return false
	}
	onceMu.Lock()
	defer onceMu.Unlock()
	if onceSeen[key] {
		return false
	}
	onceSeen[key] = true
	return true
}
