// Package c02: warm-up contract - exactly max(0, n-w) values on every output, outputs aligned,
// declared idle period equal to the position of the documented formula's first value, and the
// dependence frontier of window-type indicators.
package c02

import (
	"fmt"
	"math"
	"testing"

	"pgregory.net/rapid"
	"verif/harness/engine"
	"verif/harness/gen"
	"verif/harness/pipe"
	"verif/harness/ref"
	"verif/harness/reg"
)

func TestMain(m *testing.M) { engine.Main(m) }

// Case is one generated execution; K selects the output index probed by the frontier test.
type Case struct {
	Cfg  reg.Config `json:"cfg"`
	Bars gen.Bars   `json:"bars"`
	K    int        `json:"k"`
	// Q selects the input position (and the variant) of the alignment probe.
	Q int `json:"q,omitempty"`
}

func same(a, b float64) bool {
	return math.Float64bits(a) == math.Float64bits(b) || (a != a && b != b)
}

// perturb returns a copy of the bars with position pos changed in variant v.
func perturb(b gen.Bars, pos, v int) gen.Bars {
	c := gen.Bars{Class: b.Class}
	cp := func(s []float64) []float64 { return append([]float64{}, s...) }
	c.Open, c.High, c.Low, c.Close, c.Volume, c.X, c.Y = cp(b.Open), cp(b.High), cp(b.Low), cp(b.Close), cp(b.Volume), cp(b.X), cp(b.Y)
	switch v {
	case 0:
		c.High[pos] = b.High[pos]*2 + 1
		c.Close[pos] = c.High[pos] - 0.25
		c.X[pos] += 1000
		c.Volume[pos] = b.Volume[pos]*3 + 11
	case 1:
		c.Low[pos] = b.Low[pos] * 0.5
		c.Close[pos] = c.Low[pos] + 0.125
		c.X[pos] -= 1000
		c.Y[pos] += 777
		c.Volume[pos] = b.Volume[pos]*0.5 + 3
	case 2:
		c.Open[pos] = b.Low[pos]
		c.Close[pos] = b.High[pos]*4 + 2
		c.High[pos] = c.Close[pos] + 1
		c.X[pos] = b.X[pos]*3 + 17
		c.Y[pos] -= 333
	case 3:
		c.Open[pos] = b.High[pos]
		c.Close[pos] = b.Low[pos] * 0.25
		c.Low[pos] = c.Close[pos] * 0.5
		c.X[pos] = -b.X[pos] - 5
		c.Volume[pos] = b.Volume[pos] + 1000
	}
	return c
}

func check(ind reg.Ind, c Case, frontier bool) engine.Outcome {
	var o engine.Outcome
	n := c.Bars.Len()
	res, w := ind.Run(c.Cfg, c.Bars, pipe.Opts{})
	if !res.OK() {
		o.Failf("%s %v n=%d: pipeline did not terminate cleanly: %s: %s", ind.Name, c.Cfg, n, res.Verdict, res.Detail)
		return o
	}
	want := n - w
	if want < 0 {
		want = 0
	}
	for j, out := range res.Outs {
		if len(out) != want {
			o.Failf("%s %v: input of %d values, declared idle period %d: output %q has %d values, want %d (lengths of all outputs: %v)", ind.Name, c.Cfg, n, w, ind.Outs[j], len(out), want, lens(res.Outs))
			return o
		}
	}
	if n > 10000 {
		// a very long input: the length law (the reference-based probes would take seconds each)
		o.NonTrivial = true
		o.Class("very_long_input")
		o.Key = fmt.Sprint(c.Cfg, n)
		return o
	}
	if c.Bars.HasGaps() {
		// a series with missing values (NaN): the length law is all that is claimed
		o.NonTrivial = n > w
		o.Class("series_with_gaps")
		o.Key = fmt.Sprint(c.Cfg, n, "gaps")
		return o
	}
	// the declared idle period is where the documented formula's first value lands
	if n > w {
		for j, rs := range ind.Ref(c.Cfg, ind.RefIn(c.Bars)) {
			if rs.Len() > 0 && rs.At != w {
				o.Failf("%s %v: declared idle period %d, but the documented formula of output %q yields its first value at input position %d", ind.Name, c.Cfg, w, ind.Outs[j], rs.At)
				return o
			}
			if rs.Len() == 0 {
				o.Failf("%s %v: n=%d > idle %d but the documented formula of output %q has no value yet", ind.Name, c.Cfg, n, w, ind.Outs[j])
				return o
			}
		}
	}
	// dependence frontier: nothing later than position k+w influences output k, and output k does
	// react to position k+w whenever the documented formula does (the reference is the arbiter of
	// sensitivity: degenerate configurations such as MovingStd(1) are legitimately insensitive).
	if frontier && ind.Window && want > 0 {
		k := c.K % want
		pos := k + w
		baseRef := ind.Ref(c.Cfg, ind.RefIn(c.Bars))
		for v := 0; v < 4; v++ {
			pb := perturb(c.Bars, pos, v)
			r2, _ := ind.Run(c.Cfg, pb, pipe.Opts{})
			if !r2.OK() {
				o.Failf("%s %v: perturbed run did not terminate: %s", ind.Name, c.Cfg, r2.Verdict)
				return o
			}
			pertRef := ind.Ref(c.Cfg, ind.RefIn(pb))
			for j := range res.Outs {
				if len(r2.Outs[j]) != len(res.Outs[j]) {
					o.Failf("%s %v: changing a value changed the number of outputs", ind.Name, c.Cfg)
					return o
				}
				for i := 0; i < k; i++ {
					if !same(res.Outs[j][i], r2.Outs[j][i]) {
						o.Failf("%s %v n=%d: changing input position %d changed value #%d of output %q (position %d < %d): %v -> %v", ind.Name, c.Cfg, n, pos, i, ind.Outs[j], i+w, pos, res.Outs[j][i], r2.Outs[j][i])
						return o
					}
				}
				if ind.Defect != nil {
					continue // values of indicators with a recorded formula defect are C01's business
				}
				b0, ok0 := baseRef[j].Get(pos)
				b1, ok1 := pertRef[j].Get(pos)
				if !ok0 || !ok1 {
					continue
				}
				if sign, sure := ref.Cmp(b0, b1); sure && sign != 0 {
					o.Add("frontier_sensitivity_probes", 1)
					if same(res.Outs[j][k], r2.Outs[j][k]) {
						o.Failf("%s %v n=%d: value #%d of output %q did not react to a change of input position %d = #%d + idle period %d, although the documented formula changes from %v to %v there", ind.Name, c.Cfg, n, k, ind.Outs[j], pos, k, w, b0.V, b1.V)
						return o
					}
				}
			}
		}
		o.Add("frontier_probes", 1)
	}
	// alignment probe (every indicator, any position): change ONE input position q; wherever the
	// documented formula, evaluated at absolute positions, moves by more than both error bounds,
	// value #(p - w) of the implementation must move too. A line that is displaced against the
	// others (a pass-through or lagged column keeping the right length) reacts at the wrong index.
	if want > 0 && ind.Defect == nil && c.Q > 0 {
		q := c.Q % n
		pb := perturb(c.Bars, q, (c.Q/n)%4)
		r2, _ := ind.Run(c.Cfg, pb, pipe.Opts{})
		if !r2.OK() {
			o.Failf("%s %v: perturbed run did not terminate: %s", ind.Name, c.Cfg, r2.Verdict)
			return o
		}
		baseRef := ind.Ref(c.Cfg, ind.RefIn(c.Bars))
		pertRef := ind.Ref(c.Cfg, ind.RefIn(pb))
		for j := range res.Outs {
			if len(r2.Outs[j]) != want {
				o.Failf("%s %v: changing a value changed the number of outputs", ind.Name, c.Cfg)
				return o
			}
			for i := 0; i < want; i++ {
				b0, ok0 := baseRef[j].Get(i + w)
				b1, ok1 := pertRef[j].Get(i + w)
				if !ok0 || !ok1 || b0.IsBad() || b1.IsBad() {
					continue
				}
				if math.Abs(b0.V-b1.V) > 2*ref.Slack*(b0.E+b1.E) {
					o.Add("alignment_probe_positions", 1)
					if same(res.Outs[j][i], r2.Outs[j][i]) {
						o.Failf("%s %v n=%d: changing input position %d moves the documented value of output %q at position %d (%v -> %v), but value #%d = position %d - idle period %d stayed %v", ind.Name, c.Cfg, n, q, ind.Outs[j], i+w, b0.V, b1.V, i, i+w, w, res.Outs[j][i])
						return o
					}
				}
			}
		}
		o.Add("alignment_probes", 1)
	}
	o.NonTrivial = n <= w+2 || len(res.Outs) > 1
	if n <= w {
		o.Class("n<=idle")
	} else if n <= w+2 {
		o.Class("n in (idle, idle+2]")
	}
	if n == 0 {
		o.Class("empty")
	}
	if len(res.Outs) > 1 {
		o.Class("multi_output")
	}
	o.Key = fmt.Sprint(c.Cfg, n)
	return o
}

func lens(x [][]float64) []int {
	out := make([]int, len(x))
	for i := range x {
		out[i] = len(x[i])
	}
	return out
}

func prop(ind reg.Ind) engine.Prop[Case] {
	return engine.Prop[Case]{
		ID: "C02", Subject: ind.Name,
		Gen: func(t *rapid.T) Case {
			cfg := ind.GenConfig(t, 0)
			w := ind.Idle(cfg)
			n := rapid.IntRange(0, 2*w+3).Draw(t, "n")
			if rapid.IntRange(0, 9).Draw(t, "long") == 0 {
				n = rapid.IntRange(0, 3*w+30).Draw(t, "n2")
			}
			if vl := gen.VeryLong(t); vl > 0 {
				n = vl
			}
			if engine.OncePerRun("C02-very-long/" + ind.Name) {
				n = 1<<16 + 8 // every indicator once per run: beyond 16-bit counters and 65536-value refresh intervals
			}
			c := Case{Cfg: cfg, Bars: gen.GenBarsOf(t, n, rapid.SampledFrom([]string{"walk", "walk", "ties", "zeros", "flat"}).Draw(t, "class")), K: rapid.IntRange(0, 1000).Draw(t, "k"), Q: rapid.IntRange(0, 4000).Draw(t, "q")}
			if rapid.IntRange(0, 7).Draw(t, "with_gaps") == 0 {
				c.Bars = gen.WithGaps(t, c.Bars)
			}
			return c
		},
		Check: func(c Case) engine.Outcome { return check(ind, c, true) },
	}
}

func props() []engine.AnyProp {
	var ps []engine.AnyProp
	for _, ind := range reg.All() {
		ps = append(ps, prop(ind))
	}
	return ps
}

func TestC02(t *testing.T) {
	engine.RunAll(t, props(), false)
	if engine.Thorough() && engine.Shard() == 0 {
		t.Run("exhaustive_small", exhaustive)
	}
}

// exhaustive enumerates every configuration with all periods <= 4 (<= 3 for four-parameter
// indicators) and every length n <= 2w+3 for the length law.
func exhaustive(t *testing.T) {
	total := 0
	for _, ind := range reg.All() {
		ind := ind
		maxP := 4
		if len(ind.Params) >= 4 {
			maxP = 3
		}
		cfgs := []reg.Config{}
		var rec func(i int, cur []int)
		rec = func(i int, cur []int) {
			if i == len(ind.Params) {
				c := reg.Config{P: append([]int{}, cur...), F: append([]float64{}, ind.FParams...)}
				orig := fmt.Sprint(c.P)
				if ind.Fix != nil {
					ind.Fix(&c)
				}
				if fmt.Sprint(c.P) == orig { // skip configurations the fix-up would reorder (duplicates)
					cfgs = append(cfgs, c)
				}
				return
			}
			for p := 1; p <= maxP; p++ {
				rec(i+1, append(cur, p))
			}
		}
		rec(0, nil)
		ci, n := 0, 0
		p := prop(ind)
		p.Subject = ind.Name + "/exhaustive-small"
		p.Check = func(c Case) engine.Outcome { return check(ind, c, false) }
		total += engine.Enumerate(t, p, func() (Case, bool) {
			for ci < len(cfgs) {
				w := ind.Idle(cfgs[ci])
				if n <= 2*w+3 {
					c := Case{Cfg: cfgs[ci], Bars: ramp(n)}
					n++
					return c, true
				}
				ci, n = ci+1, 0
			}
			return Case{}, false
		})
	}
	engine.SetExtra("exhaustive_small", map[string]any{"cases": total, "space": "every registry entry x all periods <= 4 (<= 3 with four period parameters) x all n in [0, 2w+3]", "complete": !t.Failed()})
}

func ramp(n int) gen.Bars {
	b := gen.Bars{Class: "ramp"}
	for i := 0; i < n; i++ {
		c := 100 + float64((i*7)%13) + float64(i)/4
		b.Open = append(b.Open, c-0.5)
		b.High = append(b.High, c+1.25)
		b.Low = append(b.Low, c-1.5)
		b.Close = append(b.Close, c)
		b.Volume = append(b.Volume, float64(1000+(i*37)%91))
		b.X = append(b.X, float64((i*5)%11)-4)
		b.Y = append(b.Y, float64((i*3)%7)-2)
	}
	return b
}

func TestReplay(t *testing.T) { engine.Replay(t, "C02", props()) }
