// Package c09: indicator and strategy instances are reusable and race-free. Built with -race.
package c09

import (
	"fmt"
	"math"
	"reflect"
	"sync"
	"testing"
	"unsafe"

	"github.com/cinar/indicator/v2/asset"
	"github.com/cinar/indicator/v2/helper"
	"github.com/cinar/indicator/v2/strategy"
	"pgregory.net/rapid"
	"verif/harness/engine"
	"verif/harness/gen"
	"verif/harness/pipe"
	"verif/harness/reg"
	"verif/harness/sreg"
	"verif/harness/stub"
)

func TestMain(m *testing.M) { engine.Main(m) }

func same(a, b float64) bool {
	return math.Float64bits(a) == math.Float64bits(b) || (a != a && b != b)
}

// runInd executes one Compute call of an (existing) instance on slices.
func runInd(run func([]reg.C) []reg.C, ins [][]float64) [][]float64 {
	cs := make([]reg.C, len(ins))
	for i := range ins {
		cs[i] = helper.SliceToChan(ins[i])
	}
	outs := run(cs)
	res := make([][]float64, len(outs))
	var wg sync.WaitGroup
	for i := range outs {
		wg.Add(1)
		go func(i int) { defer wg.Done(); res[i] = helper.ChanToSlice(outs[i]) }(i)
	}
	wg.Wait()
	return res
}

// IndCase: several calls on one instance.
type IndCase struct {
	Cfg        reg.Config `json:"cfg"`
	Calls      []gen.Bars `json:"calls"`
	Concurrent bool       `json:"concurrent"`
}

func equalOuts(a, b [][]float64) string {
	if len(a) != len(b) {
		return "different number of outputs"
	}
	for j := range a {
		if len(a[j]) != len(b[j]) {
			return fmt.Sprintf("output %d has %d values, a fresh instance yields %d", j, len(a[j]), len(b[j]))
		}
		for k := range a[j] {
			if !same(a[j][k], b[j][k]) {
				return fmt.Sprintf("output %d value #%d is %v, a fresh instance yields %v", j, k, a[j][k], b[j][k])
			}
		}
	}
	return ""
}

func indProp(ind reg.Ind) engine.AnyProp {
	return engine.Prop[IndCase]{
		ID: "C09", Subject: "indicator/" + ind.Name,
		Gen: func(t *rapid.T) IndCase {
			cfg := ind.GenConfig(t, 8)
			w := ind.Idle(cfg)
			k := rapid.IntRange(2, 5).Draw(t, "calls")
			c := IndCase{Cfg: cfg, Concurrent: rapid.IntRange(0, 2).Draw(t, "conc") > 0}
			for i := 0; i < k; i++ {
				n := rapid.IntRange(0, 2*w+25).Draw(t, "n")
				if rapid.IntRange(0, 5).Draw(t, "short") == 0 {
					n = rapid.IntRange(0, w).Draw(t, "n_short")
				}
				c.Calls = append(c.Calls, gen.GenBarsOf(t, n, "walk"))
			}
			return c
		},
		Check: func(c IndCase) (o engine.Outcome) {
			// under the goroutine census: calls on a reused instance that never return (a deadlock
			// that only shows on the second or on overlapping computations) are a violation, not a
			// stalled shard
			if verdict, detail := pipe.Call(func() { o = indCheck(ind, c) }); verdict != "ok" {
				o = engine.Outcome{}
				o.Failf("%s %v: %d calls on one instance (concurrent=%v) never finished: %s: %s", ind.Name, c.Cfg, len(c.Calls), c.Concurrent, verdict, detail)
			}
			return o
		},
	}
}

func indCheck(ind reg.Ind, c IndCase) engine.Outcome {
	{
		{
			var o engine.Outcome
			fresh := make([][][]float64, len(c.Calls))
			for i, b := range c.Calls {
				run, _ := ind.Build(c.Cfg)
				fresh[i] = runInd(run, ind.Slices(b))
			}
			shared, _ := ind.Build(c.Cfg)
			got := make([][][]float64, len(c.Calls))
			if c.Concurrent {
				var wg sync.WaitGroup
				for i, b := range c.Calls {
					wg.Add(1)
					go func(i int, b gen.Bars) { defer wg.Done(); got[i] = runInd(shared, ind.Slices(b)) }(i, b)
				}
				wg.Wait()
			} else {
				for i, b := range c.Calls {
					got[i] = runInd(shared, ind.Slices(b))
				}
			}
			lens := map[int]bool{}
			for i := range c.Calls {
				lens[c.Calls[i].Len()] = true
				if msg := equalOuts(got[i], fresh[i]); msg != "" {
					mode := "sequential"
					if c.Concurrent {
						mode = "concurrent"
					}
					o.Failf("%s %v: call %d of %d (%s calls on one instance, input lengths %v): %s", ind.Name, c.Cfg, i+1, len(c.Calls), mode, callLens(c.Calls), msg)
					return o
				}
			}
			o.NonTrivial = len(lens) >= 2
			if c.Concurrent {
				o.Class("concurrent_calls")
			} else {
				o.Class("sequential_calls")
			}
			o.Add("calls", len(c.Calls))
			o.Key = fmt.Sprint(c.Cfg, c.Concurrent, callLens(c.Calls), c.Calls[0].Close)
			return o
		}
	}
}

func callLens(bs []gen.Bars) []int {
	out := make([]int, len(bs))
	for i := range bs {
		out[i] = bs[i].Len()
	}
	return out
}

// StratCase: Compute and Report calls on one strategy instance.
type StratCase struct {
	Tree       sreg.Tree  `json:"tree"`
	Calls      []gen.Bars `json:"calls"`
	Reports    []bool     `json:"reports"` // call i is a Report call
	Concurrent bool       `json:"concurrent"`
}

func columnChan(col helper.ReportColumn) (reflect.Value, bool) {
	v := reflect.ValueOf(col)
	if v.Kind() != reflect.Ptr || v.Elem().Kind() != reflect.Struct {
		return reflect.Value{}, false
	}
	f := v.Elem().FieldByName("values")
	if !f.IsValid() || f.Kind() != reflect.Chan {
		return reflect.Value{}, false
	}
	return reflect.NewAt(f.Type(), unsafe.Pointer(f.UnsafeAddr())).Elem(), true
}

// runStrat performs one Compute (report=false) or Report call and returns everything it yields
// as float64 columns (dates as unix seconds, annotations as codes).
func runStrat(s strategy.Strategy, sn []*asset.Snapshot, report bool) [][]float64 {
	if !report {
		acts := helper.ChanToSlice(s.Compute(helper.SliceToChan(sn)))
		out := make([]float64, len(acts))
		for i, a := range acts {
			out[i] = float64(a)
		}
		return [][]float64{out}
	}
	rep := s.Report(helper.SliceToChan(sn))
	chans := []reflect.Value{reflect.ValueOf(rep.Date)}
	for _, c := range rep.Columns {
		if ch, ok := columnChan(c); ok {
			chans = append(chans, ch)
		}
	}
	res := make([][]float64, len(chans))
	var wg sync.WaitGroup
	for i, ch := range chans {
		wg.Add(1)
		go func(i int, ch reflect.Value) {
			defer wg.Done()
			for {
				v, ok := ch.Recv()
				if !ok {
					return
				}
				switch x := v.Interface().(type) {
				case float64:
					res[i] = append(res[i], x)
				case string:
					res[i] = append(res[i], float64(len(x))*7+float64(firstByte(x)))
				default:
					res[i] = append(res[i], float64(reflect.ValueOf(x).MethodByName("Unix").Call(nil)[0].Int()))
				}
			}
		}(i, ch)
	}
	wg.Wait()
	return res
}

func firstByte(s string) byte {
	if s == "" {
		return 0
	}
	return s[0]
}

func guardedStratCheck(c StratCase) (o engine.Outcome) {
	if verdict, detail := pipe.Call(func() { o = stratCheck(c) }); verdict != "ok" {
		o = engine.Outcome{}
		o.Failf("%s: %d computations on one instance (concurrent=%v) never finished: %s: %s", c.Tree, len(c.Calls), c.Concurrent, verdict, detail)
	}
	return o
}

func stratCheck(c StratCase) engine.Outcome {
	var o engine.Outcome
	sns := make([][]*asset.Snapshot, len(c.Calls))
	fresh := make([][][]float64, len(c.Calls))
	for i, b := range c.Calls {
		sns[i] = stub.Snapshots(b)
		fresh[i] = runStrat(c.Tree.Build(), sns[i], c.Reports[i])
	}
	shared := c.Tree.Build()
	got := make([][][]float64, len(c.Calls))
	if c.Concurrent {
		var wg sync.WaitGroup
		for i := range c.Calls {
			wg.Add(1)
			go func(i int) { defer wg.Done(); got[i] = runStrat(shared, sns[i], c.Reports[i]) }(i)
		}
		wg.Wait()
	} else {
		for i := range c.Calls {
			got[i] = runStrat(shared, sns[i], c.Reports[i])
		}
	}
	lens := map[int]bool{}
	reports := 0
	for i := range c.Calls {
		lens[len(sns[i])] = true
		if c.Reports[i] {
			reports++
		}
		if msg := equalOuts(got[i], fresh[i]); msg != "" {
			kind := "Compute"
			if c.Reports[i] {
				kind = "Report"
			}
			o.Failf("%s: %s call %d of %d on one instance (concurrent=%v, snapshot counts %v): %s", c.Tree, kind, i+1, len(c.Calls), c.Concurrent, callLens(c.Calls), msg)
			return o
		}
	}
	o.NonTrivial = len(lens) >= 2
	if c.Concurrent {
		o.Class("concurrent_calls")
	} else {
		o.Class("sequential_calls")
	}
	o.Add("calls", len(c.Calls))
	o.Add("report_calls", reports)
	o.Key = fmt.Sprint(c.Tree, c.Concurrent, c.Reports, callLens(c.Calls), c.Calls[0].Close)
	return o
}

func genStratCase(t *rapid.T, tr sreg.Tree) StratCase {
	w := tr.MaxWarm()
	k := rapid.IntRange(2, 4).Draw(t, "calls")
	c := StratCase{Tree: tr, Concurrent: rapid.IntRange(0, 2).Draw(t, "conc") > 0}
	for i := 0; i < k; i++ {
		n := rapid.IntRange(0, 2*w+25).Draw(t, "n")
		c.Calls = append(c.Calls, gen.GenBarsOf(t, n, "walk"))
		c.Reports = append(c.Reports, rapid.IntRange(0, 2).Draw(t, "report") == 0)
	}
	return c
}

func baseStratProp(st sreg.Strat) engine.AnyProp {
	return engine.Prop[StratCase]{
		ID: "C09", Subject: "strategy/" + st.Name,
		Gen: func(t *rapid.T) StratCase {
			return genStratCase(t, sreg.Tree{Op: "leaf", Leaf: st.Name, Cfg: st.GenConfig(t)})
		},
		Check: guardedStratCheck,
	}
}

func treeProp() engine.AnyProp {
	names := sreg.OnTimeNames()
	return engine.Prop[StratCase]{
		ID: "C09", Subject: "strategy/decorated+compound",
		Gen:   func(t *rapid.T) StratCase { return genStratCase(t, sreg.GenTree(t, names, 2)) },
		Check: guardedStratCheck,
	}
}

func props() []engine.AnyProp {
	var ps []engine.AnyProp
	for _, ind := range reg.All() {
		ps = append(ps, indProp(ind))
	}
	for _, st := range sreg.Base() {
		ps = append(ps, baseStratProp(st))
	}
	for _, st := range sreg.Extra() {
		if st.TerminationOnly {
			continue
		}
		ps = append(ps, baseStratProp(st))
	}
	return append(ps, treeProp())
}

func TestC09(t *testing.T) { engine.RunAll(t, props(), false) }

func TestReplay(t *testing.T) { engine.Replay(t, "C09", props()) }
