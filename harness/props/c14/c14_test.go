// Package c14: strategy reports have one value per date in every column, rows carry that date's
// close, annotation and outcome, and indicator columns are plotted against the dates they were
// computed for.
package c14

import (
	"bytes"
	"errors"
	"fmt"
	"math"
	"reflect"
	"regexp"
	"strconv"
	"strings"
	"testing"
	"time"
	"unsafe"

	"github.com/cinar/indicator/v2/asset"
	"github.com/cinar/indicator/v2/helper"
	"github.com/cinar/indicator/v2/strategy"
	"pgregory.net/rapid"
	"verif/harness/engine"
	"verif/harness/gen"
	"verif/harness/pipe"
	"verif/harness/sreg"
	"verif/harness/stub"
)

func TestMain(m *testing.M) { engine.Main(m) }

// Case is one report execution.
type Case struct {
	Tree sreg.Tree `json:"tree"`
	Bars gen.Bars  `json:"bars"`
	M    int       `json:"m"` // prefix length for the alignment check
	// Zone: the snapshots are dated at local midnight in a zone Zone quarter hours east of UTC
	// (what time.ParseInLocation or a database driver yields); 0 = UTC, as the CSV reader gives.
	Zone int `json:"zone,omitempty"`
}

// snapshots dates the bars in the case's zone.
func (c Case) snapshots(b gen.Bars) []*asset.Snapshot {
	sn := stub.Snapshots(b)
	if c.Zone != 0 {
		loc := time.FixedZone("verif", c.Zone*900)
		for _, s := range sn {
			y, m, d := s.Date.Date()
			s.Date = time.Date(y, m, d, 0, 0, 0, 0, loc)
		}
	}
	return sn
}

// columnChan reaches the unexported values channel of a report column.
func columnChan(col helper.ReportColumn) (reflect.Value, bool) {
	v := reflect.ValueOf(col)
	if v.Kind() != reflect.Ptr || v.Elem().Kind() != reflect.Struct {
		return reflect.Value{}, false
	}
	f := v.Elem().FieldByName("values")
	if !f.IsValid() || f.Kind() != reflect.Chan {
		return reflect.Value{}, false
	}
	return reflect.NewAt(f.Type(), unsafe.Pointer(f.UnsafeAddr())).Elem(), true
}

// forward copies a channel of any element type into a channel of any.
func forward(ch reflect.Value) <-chan any {
	out := make(chan any)
	go func() {
		defer close(out)
		for {
			v, ok := ch.Recv()
			if !ok {
				return
			}
			out <- v.Interface()
		}
	}()
	return out
}

type table struct {
	names []string // "name/role" per column
	dates []time.Time
	cols  [][]any
	err   string
}

// readReport builds the report of s on the snapshots and drains the date axis and every column
// concurrently, each to its end.
func readReport(s strategy.Strategy, sn []*asset.Snapshot) table {
	var tb table
	res := pipe.Run([][]*asset.Snapshot{sn}, pipe.Opts{}, func(cs []<-chan *asset.Snapshot) []<-chan any {
		rep := s.Report(cs[0])
		outs := []<-chan any{forward(reflect.ValueOf(rep.Date))}
		for _, c := range rep.Columns {
			ch, ok := columnChan(c)
			if !ok {
				tb.err = fmt.Sprintf("harness: cannot reach the values channel of column %q (%T)", c.Name(), c)
				ch = reflect.ValueOf(make(chan int))
				reflect.ValueOf(ch.Interface()).Close()
			}
			tb.names = append(tb.names, c.Name()+"/"+c.Role())
			outs = append(outs, forward(ch))
		}
		return outs
	})
	if res.Verdict == "deadlock" {
		tb.err = "report pipeline: " + res.Verdict + ": " + res.Detail
		return tb
	}
	for _, d := range res.Outs[0] {
		tb.dates = append(tb.dates, d.(time.Time))
	}
	tb.cols = res.Outs[1:]
	return tb
}

func sameVal(a, b any) bool {
	fa, ok1 := a.(float64)
	fb, ok2 := b.(float64)
	if ok1 && ok2 {
		return math.Float64bits(fa) == math.Float64bits(fb) || (fa != fa && fb != fb)
	}
	return reflect.DeepEqual(a, b)
}

// averages are the columns that are plain moving averages of the current bar's prices: they must
// react to a change of the newest snapshot (a column plotted a day late does not).
var averages = map[string]bool{"Fast": true, "Slow": true, "Medium": true, "Short": true, "Long": true, "KAMA": true, "SMA": true, "VWMA": true,
	"VWAP": true, "Moving Average": true, "Weighted Close": true, "Jaw": true, "Teeth": true, "Lip": true, "Middle": true}

// failAtEnd accepts everything except a chunk that holds the closing tag of the page (by then
// every column has been consumed, so the refused write leaves no pipeline behind).
type failAtEnd struct{}

func (failAtEnd) Write(p []byte) (int, error) {
	if bytes.Contains(p, []byte("</html>")) {
		return 0, errors.New("no space left on device")
	}
	return len(p), nil
}

var addRow = regexp.MustCompile(`(?s)data\.addRow\(\[(.*?)\]\);`)

func check(c Case) engine.Outcome {
	var o engine.Outcome
	n := c.Bars.Len()
	sn := c.snapshots(c.Bars)
	s := c.Tree.Build()
	tb := readReport(s, sn)
	if tb.err != "" {
		o.Failf("%s n=%d: %s", c.Tree, n, tb.err)
		return o
	}
	lateKey, cciKey := "", ""
	for _, leaf := range c.Tree.Leaves() {
		if st, ok := sreg.ByName(leaf); ok {
			if st.LateKey != "" {
				lateKey = st.LateKey
			}
			if st.Name == "Cci" {
				cciKey = st.DefectKey
			}
		}
	}
	// 1. one value per date in every column
	var mism []string
	for i, col := range tb.cols {
		if len(col) != len(tb.dates) {
			mism = append(mism, fmt.Sprintf("%q has %d values", tb.names[i], len(col)))
		}
	}
	if len(tb.dates) > n {
		o.Failf("%s: the report has %d date rows for %d snapshots", c.Tree, len(tb.dates), n)
		return o
	}
	if len(mism) > 0 {
		late := lateKey != ""
		if late {
			for i, col := range tb.cols {
				if len(col) != len(tb.dates) && len(col) != len(tb.dates)+1 {
					late = false
				}
				_ = i
			}
		}
		if late {
			o.KnownAs(lateKey)
		} else {
			o.Failf("%s n=%d: %d date rows but column(s) %s", c.Tree, n, len(tb.dates), strings.Join(mism, ", "))
			return o
		}
	}
	// 2. rows carry that date's close, annotation and outcome
	actRes := sreg.RunStrategy(c.Tree.Build(), sn, pipe.Opts{})
	if actRes.Verdict == "deadlock" {
		o.Failf("%s: Compute: %s", c.Tree, actRes.Verdict)
		return o
	}
	acts := actRes.Outs[0]
	if len(acts) > n {
		acts = acts[:n]
	}
	norm := stub.Normalize(acts)
	closes := c.Bars.Close
	outRes := pipe.Run([][]float64{closes}, pipe.Opts{}, func(cs []<-chan float64) []<-chan float64 {
		return []<-chan float64{strategy.Outcome(cs[0], helper.SliceToChan(acts))}
	})
	annotations := 0
	indexOf := map[int64]int{}
	for i, x := range sn {
		indexOf[x.Date.Unix()] = i
	}
	for r, dt := range tb.dates {
		i, isSnap := indexOf[dt.Unix()]
		if !isSnap || !sn[i].Date.Equal(dt) {
			o.Failf("%s: date row %d is %v, not a snapshot date", c.Tree, r, dt)
			return o
		}
		if r > 0 && !tb.dates[r-1].Before(dt) {
			o.Failf("%s: date rows %d and %d are not in increasing order", c.Tree, r-1, r)
			return o
		}
		for ci, name := range tb.names {
			if r >= len(tb.cols[ci]) {
				continue
			}
			v := tb.cols[ci][r]
			switch name {
			case "Close/data":
				if f, ok := v.(float64); !ok || f != sn[i].Close {
					if cciKey != "" && ok && f == sn[i].High {
						o.KnownAs(cciKey)
					} else {
						o.Failf("%s: row of %s shows Close %v, the snapshot's close is %v", c.Tree, dt.Format("2006-01-02"), v, sn[i].Close)
						return o
					}
				}
			case "/annotation":
				want := ""
				if i < len(norm) {
					want = norm[i].Annotation()
				}
				if want != "" {
					annotations++
				}
				if sv, ok := v.(string); !ok || sv != want {
					if lateKey != "" && len(tb.cols[ci]) == len(tb.dates)+1 {
						o.KnownAs(lateKey)
					} else {
						o.Failf("%s: row of %s (snapshot %d) shows annotation %q, the normalised action recommended on that date is %q (actions %v)", c.Tree, dt.Format("2006-01-02"), i, v, want, acts)
						return o
					}
				}
			case "Outcome/data":
				if outRes.OK() && i < len(outRes.Outs[0]) {
					want := outRes.Outs[0][i] * 100
					if f, ok := v.(float64); !ok || math.Float64bits(f) != math.Float64bits(want) {
						if lateKey != "" {
							o.KnownAs(lateKey)
						} else {
							o.Failf("%s: row of %s shows Outcome %v, the outcome as of that date is %v", c.Tree, dt.Format("2006-01-02"), v, want)
							return o
						}
					}
				}
			}
		}
	}
	// 3. alignment (i): the report of a prefix equals the first rows of the full report
	if c.M > 0 && c.M < n {
		pre := readReport(c.Tree.Build(), sn[:c.M])
		if pre.err != "" {
			o.Failf("%s prefix %d: %s", c.Tree, c.M, pre.err)
			return o
		}
		rowOf := map[int64]int{}
		for r, dt := range tb.dates {
			rowOf[dt.Unix()] = r
		}
		for r, dt := range pre.dates {
			fr, ok := rowOf[dt.Unix()]
			if !ok {
				o.Failf("%s: the report of the first %d snapshots has a row for %s that the full report lacks", c.Tree, c.M, dt.Format("2006-01-02"))
				return o
			}
			for ci := range pre.cols {
				if r < len(pre.cols[ci]) && fr < len(tb.cols[ci]) && !sameVal(pre.cols[ci][r], tb.cols[ci][fr]) {
					o.Failf("%s: column %q in the row of %s is %v in the report of the first %d snapshots but %v in the report of all %d: it is plotted ahead of the date it was computed for", c.Tree, tb.names[ci], dt.Format("2006-01-02"), pre.cols[ci][r], c.M, tb.cols[ci][fr], n)
					return o
				}
			}
		}
		o.Add("prefix_rows_compared", len(pre.dates))
	}
	// 4. alignment (ii): moving-average columns react to a change of the newest snapshot. Three
	// different changes are tried and the column only fails if it ignores all of them (a single
	// change can leave a value unchanged by coincidence; band columns such as Bollinger's Lower are
	// not monotone in the close and are not probed at all).
	if n > c.Tree.MaxWarm()+1 && lateKey == "" {
		last := n - 1
		var perturbed []table
		for v := 0; v < 3; v++ {
			pb := gen.Bars{Class: c.Bars.Class, Open: append([]float64{}, c.Bars.Open...), High: append([]float64{}, c.Bars.High...), Low: append([]float64{}, c.Bars.Low...),
				Close: append([]float64{}, c.Bars.Close...), Volume: append([]float64{}, c.Bars.Volume...), X: c.Bars.X, Y: c.Bars.Y}
			switch v {
			case 0:
				pb.Close[last] = pb.Close[last]*2 + 1
			case 1:
				pb.Close[last] = pb.Close[last]*3 + 2.3125
			default:
				pb.Close[last] = pb.Close[last] + 7.5625
			}
			pb.High[last] = math.Max(pb.High[last], pb.Close[last])*2 + 1
			pb.Volume[last] = pb.Volume[last]*3 + 7
			pt := readReport(c.Tree.Build(), c.snapshots(pb))
			if pt.err != "" {
				perturbed = nil
				break
			}
			perturbed = append(perturbed, pt)
		}
		if len(perturbed) == 3 {
			for ci, name := range tb.names {
				base := strings.TrimSuffix(name, "/data")
				rows := len(tb.dates)
				if !averages[base] || rows == 0 || len(tb.cols[ci]) != rows || !tb.dates[rows-1].Equal(sn[last].Date) {
					continue
				}
				if f, ok := tb.cols[ci][rows-1].(float64); !ok || math.IsNaN(f) || math.IsInf(f, 0) {
					continue
				}
				reacted, usable := false, true
				for _, pt := range perturbed {
					if len(pt.cols) <= ci || len(pt.cols[ci]) != rows {
						usable = false
						break
					}
					if !sameVal(tb.cols[ci][rows-1], pt.cols[ci][rows-1]) {
						reacted = true
					}
				}
				if !usable {
					continue
				}
				o.Add("newest_bar_sensitivity_probes", 1)
				if !reacted {
					o.Failf("%s: column %q in the row of the newest snapshot (%d) does not react to any of three different changes of that snapshot (%v): it is plotted after the date it was computed for", c.Tree, base, last, tb.cols[ci][rows-1])
					return o
				}
			}
		}
	}
	// 5. thorough: the rendered HTML agrees with the channel contents row by row
	if (engine.Thorough() || n%3 == 0 || c.Zone != 0) && len(mism) == 0 {
		var buf bytes.Buffer
		if n%2 == 0 {
			// a write that fails (a full disk: the very last chunk is refused) precedes the write
			// that is checked: what one report could not deliver must not turn up in the next
			var err error
			if verdict, detail := pipe.Call(func() { err = c.Tree.Build().Report(helper.SliceToChan(sn)).WriteToWriter(failAtEnd{}) }); verdict != "ok" {
				o.Failf("%s: WriteToWriter never returned: %s: %s", c.Tree, verdict, detail)
				return o
			}
			if err == nil {
				o.Failf("%s: WriteToWriter to a writer that refuses the last chunk returned no error", c.Tree)
				return o
			}
			o.Add("rendered_after_a_failed_write", 1)
		}
		var err error
		// (the report is built INSIDE the guarded call: goroutines that exist before the call are
		// outside the census, and a caller parked on them would look like a deadlock)
		if verdict, detail := pipe.Call(func() { err = c.Tree.Build().Report(helper.SliceToChan(sn)).WriteToWriter(&buf) }); verdict != "ok" {
			o.Failf("%s: WriteToWriter never returned (the page reads its columns row by row): %s: %s", c.Tree, verdict, detail)
			return o
		}
		if err != nil {
			o.Failf("%s: WriteToWriter: %v", c.Tree, err)
			return o
		}
		rows := addRow.FindAllStringSubmatch(buf.String(), -1)
		if len(rows) != len(tb.dates) {
			o.Failf("%s: rendered report has %d data rows for %d date rows", c.Tree, len(rows), len(tb.dates))
			return o
		}
		for r, m := range rows {
			var cells []string
			for _, line := range strings.Split(m[1], "\n") {
				line = strings.TrimSuffix(strings.TrimSpace(line), ",")
				if line != "" {
					cells = append(cells, line)
				}
			}
			if len(cells) != len(tb.cols)+1 {
				o.Failf("%s: rendered row %d has %d cells, want %d", c.Tree, r, len(cells), len(tb.cols)+1)
				return o
			}
			// the row is labelled with the calendar day of its snapshot
			if want := fmt.Sprintf("new Date(%q)", tb.dates[r].Format(helper.DefaultReportDateFormat)); cells[0] != want {
				o.Failf("%s: rendered row %d is labelled %s, its snapshot is dated %v, i.e. %s", c.Tree, r, cells[0], tb.dates[r], want)
				return o
			}
			for ci := range tb.cols {
				cell := cells[ci+1]
				switch v := tb.cols[ci][r].(type) {
				case float64:
					if f, err := strconv.ParseFloat(cell, 64); (err != nil || math.Float64bits(f) != math.Float64bits(v)) && !(math.IsNaN(v) && cell == "NaN") && !(math.IsInf(v, 0) && strings.Contains(cell, "Inf")) {
						o.Failf("%s: rendered row %d column %q is %s, the column channel delivered %v", c.Tree, r, tb.names[ci], cell, v)
						return o
					}
				case string:
					want := "null"
					if v != "" {
						want = fmt.Sprintf("%q", v)
					}
					if cell != want {
						o.Failf("%s: rendered row %d annotation is %s, want %s", c.Tree, r, cell, want)
						return o
					}
				}
			}
		}
		o.Add("rendered_rows_parsed", len(rows))
	}
	o.NonTrivial = n >= c.Tree.MaxWarm()+2 && annotations >= 1
	o.Add("annotations", annotations)
	o.Add("date_rows", len(tb.dates))
	o.Add("columns", len(tb.cols))
	o.Key = fmt.Sprint(c.Tree, n, c.M, c.Bars.Close)
	return o
}

func genCase(t *rapid.T, tr sreg.Tree) Case {
	w := tr.MaxWarm()
	n := rapid.IntRange(w+1, w+60).Draw(t, "n")
	c := Case{Tree: tr, Bars: gen.GenBars(t, n), M: rapid.IntRange(1, n).Draw(t, "m")}
	if rapid.IntRange(0, 5).Draw(t, "zoned") == 0 {
		c.Zone = rapid.SampledFrom([]int{-48, -20, -1, 1, 4, 12, 22, 36, 56}).Draw(t, "zone")
	}
	return c
}

func baseProp(st sreg.Strat) engine.AnyProp {
	return engine.Prop[Case]{
		ID: "C14", Subject: st.Name,
		Gen: func(t *rapid.T) Case {
			tr := sreg.Tree{Op: "leaf", Leaf: st.Name, Cfg: st.GenConfig(t)}
			if st.Plain != nil && rapid.IntRange(0, 19).Draw(t, "plain") == 0 {
				tr.Plain = true
			}
			return genCase(t, tr)
		},
		Check: check,
	}
}

func treeProp() engine.AnyProp {
	names := sreg.OnTimeNames()
	return engine.Prop[Case]{
		ID: "C14", Subject: "decorated+compound",
		Gen: func(t *rapid.T) Case {
			tr := sreg.GenTree(t, names, 2)
			if tr.Op == "leaf" {
				tr = sreg.Tree{Op: rapid.SampledFrom([]string{"inverse", "noloss", "stoploss"}).Draw(t, "wrap"), Pct: 0.0625, Kids: []sreg.Tree{tr}}
			}
			return genCase(t, tr)
		},
		Check: check,
	}
}

func props() []engine.AnyProp {
	var ps []engine.AnyProp
	for _, st := range sreg.Base() {
		ps = append(ps, baseProp(st))
	}
	return append(ps, treeProp())
}

func TestC14(t *testing.T) { engine.RunAll(t, props(), false) }

func TestReplay(t *testing.T) { engine.Replay(t, "C14", props()) }
