// Package c08: Outcome is a faithful all-in/all-out portfolio simulation; Normalize/Denormalize laws.
package c08

import (
	"fmt"
	"math"
	"sync"
	"testing"
	"time"

	"github.com/cinar/indicator/v2/asset"
	"github.com/cinar/indicator/v2/helper"
	"github.com/cinar/indicator/v2/strategy"
	"pgregory.net/rapid"
	"verif/harness/engine"
	"verif/harness/pipe"
	"verif/harness/stub"
)

func TestMain(m *testing.M) { engine.Main(m) }

// Case: a value series and an action word of possibly different lengths.
type Case struct {
	Values  []float64 `json:"values"`
	Actions []int     `json:"actions"`
	Cap     int       `json:"cap"`
}

func genCase(t *rapid.T) Case {
	n := rapid.IntRange(0, 60).Draw(t, "n")
	m := n
	if rapid.IntRange(0, 3).Draw(t, "uneq") == 0 {
		m = rapid.IntRange(0, 60).Draw(t, "m")
	}
	c := Case{Values: make([]float64, n), Actions: make([]int, m), Cap: rapid.IntRange(0, 2).Draw(t, "cap")}
	decimal := rapid.Bool().Draw(t, "decimal")
	wide := rapid.IntRange(0, 4).Draw(t, "wide") == 0
	v := float64(rapid.IntRange(16, 4000).Draw(t, "v0")) / 16
	for i := range c.Values {
		if wide {
			// anywhere in [2^-10, 2^20]
			v = math.Ldexp(float64(rapid.IntRange(1024, 2047).Draw(t, "mant"))/1024, rapid.IntRange(-10, 19).Draw(t, "exp"))
		} else {
			v += float64(rapid.IntRange(-64, 64).Draw(t, "d")) / 16
			if v < 1.0/16 {
				v = 1.0 / 16
			}
		}
		c.Values[i] = v
		if decimal {
			c.Values[i] = math.Round(v*100*1.37)/100 + 0.01
		}
	}
	other := rapid.IntRange(0, 9).Draw(t, "other") == 0
	// action density varies: sparse words have long Hold runs, dense ones many redundant repeats
	dens := rapid.IntRange(1, 4).Draw(t, "dens")
	for i := range c.Actions {
		a := 0
		if rapid.IntRange(0, 4).Draw(t, "act") < dens {
			a = rapid.SampledFrom([]int{-1, 1}).Draw(t, "a")
		}
		if other && rapid.IntRange(0, 5).Draw(t, "o") == 0 {
			a = rapid.SampledFrom([]int{-2, 2, 3}).Draw(t, "oa")
		}
		c.Actions[i] = a
	}
	return c
}

func acts(xs []int) []strategy.Action {
	out := make([]strategy.Action, len(xs))
	for i, x := range xs {
		out[i] = strategy.Action(x)
	}
	return out
}

// simulate is the portfolio of the statement: one unit of cash, all-in on Buy while in cash,
// all-out on Sell while invested, everything else ignored.
func simulate(values []float64, actions []strategy.Action) []float64 {
	n := len(values)
	if len(actions) < n {
		n = len(actions)
	}
	out := make([]float64, n)
	cash, units := 1.0, 0.0
	for i := 0; i < n; i++ {
		v := values[i]
		switch {
		case actions[i] == strategy.Buy && cash > 0:
			units, cash = cash/v, 0
		case actions[i] == strategy.Sell && units > 0:
			cash, units = units*v, 0
		}
		out[i] = cash + units*v - 1
	}
	return out
}

func close(a, b float64) bool {
	return math.Abs(a-b) <= 1e-12*(1+math.Abs(b))
}

func runOutcome(values []float64, actions []strategy.Action, capa int) (pipe.Result[float64], bool) {
	// two differently typed inputs: run the values through pipe and feed actions with SliceToChan-like feeder inside
	res := pipe.Run([][]float64{values, actionFloats(actions)}, pipe.Opts{Cap: capa}, func(cs []<-chan float64) []<-chan float64 {
		ac := helper.Map(cs[1], func(f float64) strategy.Action { return strategy.Action(int(f)) })
		return []<-chan float64{strategy.Outcome(cs[0], ac)}
	})
	return res, res.OK()
}

func actionFloats(a []strategy.Action) []float64 {
	out := make([]float64, len(a))
	for i, x := range a {
		out[i] = float64(x)
	}
	return out
}

func actionStream(word []strategy.Action, f func(<-chan strategy.Action) <-chan strategy.Action) ([]strategy.Action, string) {
	res := pipe.Run([][]strategy.Action{word}, pipe.Opts{}, func(cs []<-chan strategy.Action) []<-chan strategy.Action {
		return []<-chan strategy.Action{f(cs[0])}
	})
	if !res.OK() {
		return nil, res.Verdict + ": " + res.Detail
	}
	return res.Outs[0], ""
}

func eqActs(a, b []strategy.Action) bool {
	if len(a) != len(b) {
		return false
	}
	for i := range a {
		if a[i] != b[i] {
			return false
		}
	}
	return true
}

func check(c Case) engine.Outcome {
	var o engine.Outcome
	word := acts(c.Actions)
	res, ok := runOutcome(c.Values, word, c.Cap)
	if !ok {
		o.Failf("Outcome pipeline: %s: %s (values %d, actions %d)", res.Verdict, res.Detail, len(c.Values), len(c.Actions))
		return o
	}
	got := res.Outs[0]
	want := simulate(c.Values, word)
	if len(got) != len(want) {
		o.Failf("Outcome emitted %d entries for %d values and %d actions, want %d", len(got), len(c.Values), len(c.Actions), len(want))
		return o
	}
	firstBuy := -1
	legal := true
	for i, a := range word {
		if a == strategy.Buy && firstBuy < 0 {
			firstBuy = i
		}
		if a < -1 || a > 1 {
			legal = false
		}
	}
	for i := range want {
		if !close(got[i], want[i]) {
			o.Failf("outcome[%d] = %v, all-in/all-out simulation gives %v (values %v actions %v)", i, got[i], want[i], c.Values, c.Actions)
			return o
		}
		if got[i] < -1 {
			o.Failf("outcome[%d] = %v is below -100%%", i, got[i])
			return o
		}
		if (firstBuy < 0 || i < firstBuy) && got[i] != 0 {
			o.Failf("outcome[%d] = %v before the first Buy (at %d), want 0", i, got[i], firstBuy)
			return o
		}
	}
	// unchanged when redundant repeated actions are removed (bitwise)
	nrmModel := stub.Normalize(word)
	nrmImpl, msg := actionStream(word, strategy.NormalizeActions)
	if msg != "" {
		o.Failf("NormalizeActions: %s", msg)
		return o
	}
	if legal && !eqActs(nrmImpl, nrmModel) {
		o.Failf("NormalizeActions(%v) = %v, want %v", c.Actions, nrmImpl, nrmModel)
		return o
	}
	res2, ok := runOutcome(c.Values, nrmImpl, 0)
	if !ok {
		o.Failf("Outcome on normalised actions: %s", res2.Verdict)
		return o
	}
	for i := range got {
		if math.Float64bits(got[i]) != math.Float64bits(res2.Outs[0][i]) {
			o.Failf("outcome[%d] changes from %v to %v when redundant actions are removed (actions %v -> %v)", i, got[i], res2.Outs[0][i], c.Actions, nrmImpl)
			return o
		}
	}
	redundant := 0
	if legal {
		// normalised streams strictly alternate Buy and Sell starting with Buy
		expect := strategy.Buy
		for i, a := range nrmImpl {
			if a == strategy.Hold {
				continue
			}
			if a != expect {
				o.Failf("normalised stream %v has %v at %d where %v is due", nrmImpl, a, i, expect)
				return o
			}
			expect = -expect
		}
		for i := range word {
			if word[i] != strategy.Hold && nrmImpl[i] == strategy.Hold {
				redundant++
			}
		}
		// denormalising then normalising is the identity on normalised streams
		back, msg := actionStream(nrmImpl, func(c <-chan strategy.Action) <-chan strategy.Action {
			return strategy.NormalizeActions(strategy.DenormalizeActions(c))
		})
		if msg != "" || !eqActs(back, nrmImpl) {
			o.Failf("Normalize(Denormalize(%v)) = %v %s", nrmImpl, back, msg)
			return o
		}
		den, msg := actionStream(word, strategy.DenormalizeActions)
		if msg != "" || !eqActs(den, stub.Denormalize(word)) {
			o.Failf("DenormalizeActions(%v) = %v, want %v %s", c.Actions, den, stub.Denormalize(word), msg)
			return o
		}
	}
	// the annotation view of a word (what reports print) is the normalised stream, letter by letter
	if legal {
		ann := pipe.Run([][]strategy.Action{word}, pipe.Opts{}, func(cs []<-chan strategy.Action) []<-chan string {
			return []<-chan string{strategy.ActionsToAnnotations(cs[0])}
		})
		wantN := stub.Normalize(word)
		if !ann.OK() || len(ann.Outs[0]) != len(word) {
			o.Failf("ActionsToAnnotations(%v): %s, %d annotations for %d actions", c.Actions, ann.Verdict, len(ann.Outs[0]), len(word))
			return o
		}
		for i, a := range wantN {
			if ann.Outs[0][i] != map[strategy.Action]string{strategy.Buy: "B", strategy.Sell: "S", strategy.Hold: ""}[a] {
				o.Failf("ActionsToAnnotations(%v) = %q; the normalised stream (alternating, starting with Buy) is %v", c.Actions, ann.Outs[0], wantN)
				return o
			}
		}
	}
	// CountTransactions is the running count of non-Hold actions
	cnt := pipe.Run([][]strategy.Action{word}, pipe.Opts{}, func(cs []<-chan strategy.Action) []<-chan int {
		return []<-chan int{strategy.CountTransactions(cs[0])}
	})
	run := 0
	for i, a := range word {
		if a != strategy.Hold {
			run++
		}
		if !cnt.OK() || len(cnt.Outs[0]) != len(word) || cnt.Outs[0][i] != run {
			o.Failf("CountTransactions(%v) = %v (%s)", c.Actions, cnt.Outs[0], cnt.Verdict)
			return o
		}
	}
	// buy-and-hold equals value_i/value_0 - 1; ComputeWithOutcome = (Compute, Outcome(closings, actions))
	if len(c.Values) > 0 {
		sn := stub.SnapshotsFromCloses(c.Values)
		// the other fields of a snapshot are none of the accounting's business: untraded bars
		// (volume 0, as indices and FX pairs have throughout), flat bars, a gap in the open
		for i, x := range sn {
			switch (i + c.Cap + len(c.Actions)) % 4 {
			case 0, 1:
				x.Volume = 0
			case 2:
				x.Open, x.High, x.Low = x.Close, x.Close, x.Close
			case 3:
				// a settlement / adjusted close outside the traded range of the bar
				x.High, x.Low, x.Open = x.Close*0.875, x.Close*0.75, x.Close*0.8125
			}
		}
		bh := pipe.Run([][]*asset.Snapshot{sn}, pipe.Opts{}, func(cs []<-chan *asset.Snapshot) []<-chan float64 {
			a, oc := strategy.ComputeWithOutcome(strategy.NewBuyAndHoldStrategy(), cs[0])
			go helper.Drain(a)
			return []<-chan float64{oc}
		})
		if !bh.OK() || len(bh.Outs[0]) != len(c.Values) {
			o.Failf("buy-and-hold ComputeWithOutcome: %s, %d outcomes for %d snapshots", bh.Verdict, len(bh.Outs[0]), len(c.Values))
			return o
		}
		for i, v := range c.Values {
			w := v/c.Values[0] - 1
			if math.Abs(bh.Outs[0][i]-w) > 4*0x1p-52*math.Max(1, v/c.Values[0]) {
				o.Failf("buy-and-hold outcome[%d] = %v, want value_i/value_0 - 1 = %v", i, bh.Outs[0][i], w)
				return o
			}
		}
		// a strategy that is not repeatable (its second Compute would say something else): the
		// outcomes must be the simulation of the actions that are returned, whatever the strategy
		sc := &stub.Scripted{Label: "scripted", Word: word, OneShot: true}
		cw := pipe.Run([][]*asset.Snapshot{sn}, pipe.Opts{}, func(cs []<-chan *asset.Snapshot) []<-chan float64 {
			a, oc := strategy.ComputeWithOutcome(sc, cs[0])
			return []<-chan float64{helper.Map(a, func(x strategy.Action) float64 { return float64(x) }), oc}
		})
		if !cw.OK() {
			o.Failf("ComputeWithOutcome: %s: %s", cw.Verdict, cw.Detail)
			return o
		}
		full := make([]strategy.Action, len(c.Values))
		copy(full, word)
		wantOut := simulate(c.Values, full)
		for i := range c.Values {
			if len(cw.Outs[0]) != len(c.Values) || len(cw.Outs[1]) != len(c.Values) || strategy.Action(cw.Outs[0][i]) != full[i] || !close(cw.Outs[1][i], wantOut[i]) {
				o.Failf("ComputeWithOutcome: actions %v outcomes %v, want %v %v", cw.Outs[0], cw.Outs[1], full, wantOut)
				return o
			}
		}
	}
	// non-trivial: >= 2 completed round trips and >= 1 redundant action
	trips := 0
	if legal {
		for _, a := range nrmImpl[:len(want)] {
			if a == strategy.Sell {
				trips++
			}
		}
	}
	o.NonTrivial = trips >= 2 && redundant >= 1
	if len(c.Values) != len(c.Actions) {
		o.Class("unequal_lengths")
	}
	if !legal {
		o.Class("has_other_action_values")
	}
	if len(want) == 0 {
		o.Class("empty")
	}
	o.Add("round_trips", trips)
	o.Add("redundant_actions", redundant)
	o.Key = fmt.Sprint(c.Values, c.Actions)
	return o
}

// slowReaderProp: once per run the reader of the outcome stream of ComputeWithOutcome pauses (21 s
// in the quick tier, 61 s in the thorough one; waiting, not a verdict) while the action stream keeps
// being read. A slow reader is not a reader that has gone: every (value, action) pair still gets
// its entry.
func slowReaderProp() engine.AnyProp {
	type sc struct {
		N int `json:"n"`
	}
	return engine.Prop[sc]{ID: "C08", Subject: "Outcome/slow-reader",
		Gen: func(t *rapid.T) sc { return sc{N: rapid.IntRange(10, 20).Draw(t, "n")} },
		Check: func(c sc) engine.Outcome {
			var o engine.Outcome
			o.Key = "skipped"
			if !engine.OncePerRun("C08-slow-reader") {
				return o
			}
			o.Key = fmt.Sprint("slow reader", c.N)
			pause := 21 * time.Second
			if engine.Thorough() {
				pause = 61 * time.Second
			}
			values := make([]float64, c.N)
			for i := range values {
				values[i] = 10 + float64(i)
			}
			var acts []strategy.Action
			var outs []float64
			verdict, detail := pipe.Call(func() {
				a, oc := strategy.ComputeWithOutcome(strategy.NewBuyAndHoldStrategy(), helper.SliceToChan(stub.SnapshotsFromCloses(values)))
				var done sync.WaitGroup
				done.Add(1)
				go func() {
					defer done.Done()
					for x := range a {
						acts = append(acts, x)
					}
				}()
				outs = append(outs, <-oc)
				time.Sleep(pause)
				for x := range oc {
					outs = append(outs, x)
				}
				done.Wait()
			})
			if verdict != "ok" {
				o.Failf("ComputeWithOutcome with an outcome reader that pauses %v: %s: %s", pause, verdict, detail)
				return o
			}
			if len(acts) != c.N || len(outs) != c.N {
				o.Failf("ComputeWithOutcome over %d snapshots with an outcome reader that pauses %v after the first entry: %d actions, %d outcomes (one entry per pair is due)", c.N, pause, len(acts), len(outs))
				return o
			}
			for i, v := range values {
				if w := v/values[0] - 1; math.Abs(outs[i]-w) > 1e-12 {
					o.Failf("slow reader: buy-and-hold outcome[%d] = %v, want %v", i, outs[i], w)
					return o
				}
			}
			o.NonTrivial = true
			return o
		}}
}

func props() []engine.AnyProp {
	return []engine.AnyProp{engine.Prop[Case]{ID: "C08", Subject: "Outcome", Gen: genCase, Check: check}, slowReaderProp()}
}

func TestC08(t *testing.T) { engine.RunAll(t, props(), false) }

func TestReplay(t *testing.T) { engine.Replay(t, "C08", props()) }
