package c12

import (
	"bytes"
	"fmt"
	"os"
	"os/exec"
	"path/filepath"
	"sort"
	"strconv"
	"time"

	"github.com/cinar/indicator/v2/asset"
	"github.com/cinar/indicator/v2/helper"
	"pgregory.net/rapid"
	"verif/harness/engine"
)

// CLIAsset: the days held for one asset, as numbers of days BEFORE today (the program takes its
// default start date from the wall clock); larger = older.
type CLIAsset struct {
	Name   string `json:"name"`
	Source []int  `json:"source"` // decreasing; nil = not in the source
	Target int    `json:"target"` // the target already holds the first Target source days
	Named  bool   `json:"named"`
}

// CLISync is one invocation of the indicator-sync program (cmd/indicator-sync, anchored by the
// property) between two generated file-system repositories.
type CLISync struct {
	Assets   []CLIAsset `json:"assets"`
	Days     int        `json:"days"`
	Workers  int        `json:"workers"`
	Explicit bool       `json:"explicit"` // asset names on the command line; else every asset of the source
}

func today() time.Time {
	n := time.Now().UTC()
	return time.Date(n.Year(), n.Month(), n.Day(), 0, 0, 0, 0, time.UTC)
}

func cliSnap(name string, ago int) *asset.Snapshot {
	v := float64(1000-ago) + float64(len(name))/16
	return &asset.Snapshot{Date: today().AddDate(0, 0, -ago), Open: v, High: v + 1, Low: v - 1, Close: v + 0.5, Volume: float64(2000 - ago)}
}

func readAgo(dir, name string) ([]int, error) {
	ch, err := asset.NewFileSystemRepository(dir).Get(name)
	if err != nil {
		return nil, err
	}
	var out []int
	for s := range ch {
		out = append(out, int(today().Sub(s.Date).Hours()/24+0.5))
	}
	return out, nil
}

func cliProp() engine.AnyProp {
	return engine.Prop[CLISync]{ID: "C12", Subject: "CLI/indicator-sync",
		Gen: func(t *rapid.T) CLISync {
			c := CLISync{Days: rapid.SampledFrom([]int{10, 30, 30, 120000, 1000000}).Draw(t, "days"), Workers: rapid.IntRange(1, 4).Draw(t, "workers"), Explicit: rapid.Bool().Draw(t, "explicit")}
			names := rapid.Permutation(assetNames).Draw(t, "names")
			for i, k := 0, rapid.IntRange(1, 4).Draw(t, "assets"); i < k; i++ {
				a := CLIAsset{Name: names[i], Named: rapid.IntRange(0, 3).Draw(t, "named") > 0}
				if rapid.IntRange(0, 7).Draw(t, "in_source") > 0 {
					ago := 60
					for ago > 1 {
						ago -= rapid.IntRange(1, 6).Draw(t, "gap")
						// keep clear of the default start date (now - Days, an intraday instant; a
						// "take everything" look-back of centuries includes every snapshot)
						if ago < 1 || (ago >= c.Days-1 && ago <= c.Days+1) {
							continue
						}
						a.Source = append(a.Source, ago)
					}
					if len(a.Source) == 0 {
						a.Source = []int{2}
					}
					switch rapid.IntRange(0, 2).Draw(t, "target") {
					case 1:
						a.Target = rapid.IntRange(1, len(a.Source)).Draw(t, "prefix")
					}
				}
				c.Assets = append(c.Assets, a)
			}
			return c
		},
		Check: func(c CLISync) engine.Outcome {
			var o engine.Outcome
			bin, err := engine.Binary("indicator-sync", "github.com/cinar/indicator/v2/cmd/indicator-sync")
			if err != nil {
				o.Failf("harness: %v", err)
				return o
			}
			dir, err := os.MkdirTemp("", "verif-c12-cli-")
			if err != nil {
				o.Failf("harness: %v", err)
				return o
			}
			defer os.RemoveAll(dir)
			src, tgt := filepath.Join(dir, "source"), filepath.Join(dir, "target")
			_ = os.MkdirAll(src, 0o700)
			_ = os.MkdirAll(tgt, 0o700)
			fill := func(d, name string, agos []int) error {
				sn := make([]*asset.Snapshot, len(agos))
				for i, a := range agos {
					sn[i] = cliSnap(name, a)
				}
				return asset.NewFileSystemRepository(d).Append(name, helper.SliceToChan(sn))
			}
			var named []string
			anyNamed := false
			for _, a := range c.Assets {
				if a.Source != nil {
					if err := fill(src, a.Name, a.Source); err != nil {
						o.Failf("harness: %v", err)
						return o
					}
					if a.Target > 0 {
						if err := fill(tgt, a.Name, a.Source[:a.Target]); err != nil {
							o.Failf("harness: %v", err)
							return o
						}
					}
				}
				if c.Explicit && a.Named {
					named = append(named, a.Name)
					anyNamed = true
				}
			}
			args := []string{"-source-name", "filesystem", "-source-config", src, "-target-name", "filesystem", "-target-config", tgt,
				"-days", strconv.Itoa(c.Days), "-workers", strconv.Itoa(c.Workers), "-delay", "0"}
			args = append(args, named...)
			var stderr bytes.Buffer
			cmd := exec.Command(bin, args...)
			cmd.Stderr = &stderr
			runErr, stuck := engine.RunProgram(cmd)
			if stuck {
				o.Failf("indicator-sync %v never exits (asleep, no CPU time consumed for 30 s): %s", args, tail(stderr.String()))
				return o
			}
			wantErr, partial, fresh := false, 0, 0
			for _, a := range c.Assets {
				requested := a.Named
				if !anyNamed {
					requested = a.Source != nil // no names: every asset of the source
				}
				var want []int
				if a.Source != nil {
					want = append(want, a.Source[:a.Target]...)
				}
				if requested {
					switch {
					case a.Source == nil:
						wantErr = true
					case a.Target > 0:
						want = append(want, a.Source[a.Target:]...)
						partial++
					default:
						for _, ago := range a.Source {
							if ago < c.Days {
								want = append(want, ago)
							}
						}
						fresh++
					}
				}
				have, err := readAgo(tgt, a.Name)
				if err != nil && len(want) > 0 {
					o.Failf("indicator-sync %v: target cannot read %s afterwards: %v (stderr %s)", args, a.Name, err, tail(stderr.String()))
					return o
				}
				if fmt.Sprint(have) != fmt.Sprint(want) && !(len(have) == 0 && len(want) == 0) {
					o.Failf("indicator-sync %v: asset %s (requested=%v, source days-ago %v, target held the first %d): target holds %v afterwards, expected %v (previous snapshots followed by the missing ones, or those of the last %d days for a new asset)",
						args, a.Name, requested, a.Source, a.Target, have, want, c.Days)
					return o
				}
			}
			if (runErr != nil) != wantErr {
				o.Failf("indicator-sync %v: exit status %v, expected a failure status = %v (an asset named on the command line is missing from the source): %s", args, runErr, wantErr, tail(stderr.String()))
				return o
			}
			o.NonTrivial = partial >= 1 && fresh >= 1
			if !anyNamed {
				o.Class("no_asset_named:all_source_assets")
			}
			if wantErr {
				o.Class("asset_missing_from_source")
			}
			sort.Strings(named)
			o.Key = fmt.Sprintf("%+v", c)
			return o
		}}
}

func tail(s string) string {
	if len(s) > 500 {
		return "..." + s[len(s)-500:]
	}
	return s
}
