// Package c12: Sync copies exactly the missing snapshots, once, for every asset. Built with -race.
package c12

import (
	"fmt"
	"io"
	"log/slog"
	"os"
	"sort"
	"testing"
	"time"

	"github.com/cinar/indicator/v2/asset"
	"github.com/cinar/indicator/v2/helper"
	"pgregory.net/rapid"
	"verif/harness/engine"
	"verif/harness/pipe"
	"verif/harness/stub"
)

func TestMain(m *testing.M) {
	slog.SetDefault(slog.New(slog.NewTextHandler(io.Discard, nil)))
	engine.Main(m)
}

var day0 = time.Date(2010, 3, 1, 0, 0, 0, 0, time.UTC)

// AssetState: the days (offsets from 2010-03-01) held by source and target for one asset.
type AssetState struct {
	Name       string `json:"name"`
	Source     []int  `json:"source"` // nil: the asset is missing from the source
	InSource   bool   `json:"in_source"`
	Target     []int  `json:"target"` // nil and !InTarget: unknown to the target
	InTarget   bool   `json:"in_target"`
	Requested  bool   `json:"requested"` // listed in Sync.Assets (when the list is explicit)
	FailRead   bool   `json:"fail_read"`
	FailAppend bool   `json:"fail_append"`
}

// Case is one synchronisation scenario.
type Case struct {
	Assets   []AssetState `json:"assets"`
	Explicit bool         `json:"explicit"` // explicit asset list, else taken from the target
	Start    int          `json:"start"`    // default start date (day offset)
	Workers  int          `json:"workers"`
	FS       bool         `json:"fs"` // file-system target
}

func snap(name string, day int) *asset.Snapshot {
	// values identify (asset, day) so that misplaced snapshots are visible
	v := float64(day) + float64(len(name))/16
	return &asset.Snapshot{Date: day0.AddDate(0, 0, day), Open: v, High: v + 1, Low: v - 1, Close: v + 0.5, Volume: float64(1000 + day)}
}

// assetNames: ordinary tickers, including ones that are prefixes of each other and ones whose
// tail consists of characters of the ".csv" suffix.
var assetNames = []string{"ibm", "bac", "ba", "v", "css", "a.b"}

func genCase(t *rapid.T) Case {
	c := Case{Explicit: rapid.Bool().Draw(t, "explicit"), Start: rapid.IntRange(0, 30).Draw(t, "start"), Workers: rapid.IntRange(1, 8).Draw(t, "workers"), FS: rapid.IntRange(0, 3).Draw(t, "fs") == 0}
	n := rapid.IntRange(0, 6).Draw(t, "assets")
	for i := 0; i < n; i++ {
		a := AssetState{Name: assetNames[i], Requested: rapid.IntRange(0, 4).Draw(t, "req") > 0}
		// source: increasing days with gaps
		if rapid.IntRange(0, 9).Draw(t, "insrc") > 0 {
			a.InSource = true
			d := rapid.IntRange(0, 20).Draw(t, "s0")
			for j, m := 0, rapid.IntRange(0, 12).Draw(t, "slen"); j < m; j++ {
				a.Source = append(a.Source, d)
				d += rapid.IntRange(1, 3).Draw(t, "gap")
			}
		}
		switch rapid.IntRange(0, 5).Draw(t, "tclass") {
		case 0: // unknown to the target
		case 1: // known but empty
			a.InTarget = true
		case 2, 3: // a prefix of the source: the last target date equals a source date (+1 day boundary)
			a.InTarget = true
			if len(a.Source) > 0 {
				a.Target = append([]int{}, a.Source[:rapid.IntRange(1, len(a.Source)).Draw(t, "prefix")]...)
			}
		case 4: // disjoint, earlier
			a.InTarget = true
			for j, m := 0, rapid.IntRange(1, 4).Draw(t, "tlen"); j < m; j++ {
				a.Target = append(a.Target, -10+2*j)
			}
		case 5: // ahead of the source
			a.InTarget = true
			a.Target = []int{90, 91}
		}
		a.FailRead = rapid.IntRange(0, 5).Draw(t, "failread") == 0
		a.FailAppend = rapid.IntRange(0, 5).Draw(t, "failappend") == 0
		c.Assets = append(c.Assets, a)
	}
	return c
}

func fill(r asset.Repository, name string, days []int) error {
	sn := make([]*asset.Snapshot, len(days))
	for i, d := range days {
		sn[i] = snap(name, d)
	}
	return r.Append(name, helper.SliceToChan(sn))
}

func contents(r asset.Repository, name string) ([]int, bool) {
	ch, err := r.Get(name)
	if err != nil {
		return nil, false
	}
	var out []int
	for s := range ch {
		d := int(s.Date.Sub(day0).Hours() / 24)
		if want := snap(name, d); *want != *s && !(want.Date.Equal(s.Date) && want.Open == s.Open && want.Close == s.Close && want.Volume == s.Volume) {
			return append(out, -9999), true
		}
		out = append(out, d)
	}
	return out, true
}

type outcome struct {
	state  map[string][]int
	err1   error
	err2   error
	state2 map[string][]int
	// third run, after the injected faults have been lifted (a transient outage, then a retry)
	err3   error
	state3 map[string][]int
	// what the source holds after the three runs
	source map[string][]int
}

// execute builds the repositories, runs Sync twice and reads the target back.
func execute(c Case, workers int) (outcome, string) {
	var res outcome
	source := asset.NewInMemoryRepository()
	var target asset.Repository
	cleanup := func() {}
	if c.FS {
		dir, err := os.MkdirTemp("", "verif-c12-")
		if err != nil {
			return res, "harness: " + err.Error()
		}
		cleanup = func() { _ = os.RemoveAll(dir) }
		target = asset.NewFileSystemRepository(dir)
	} else {
		target = asset.NewInMemoryRepository()
	}
	defer cleanup()
	fs := &stub.FaultRepo{Repository: source, FailGetSince: map[string]bool{}}
	ft := &stub.FaultRepo{Repository: target, FailAppend: map[string]bool{}}
	var list []string
	for _, a := range c.Assets {
		if a.InSource {
			if err := fill(source, a.Name, a.Source); err != nil {
				return res, "harness: " + err.Error()
			}
		}
		if a.InTarget {
			if err := fill(target, a.Name, a.Target); err != nil {
				return res, "harness: " + err.Error()
			}
		}
		fs.FailGetSince[a.Name] = a.FailRead
		ft.FailAppend[a.Name] = a.FailAppend
		if a.Requested {
			list = append(list, a.Name)
		}
	}
	hang := ""
	run := func() error {
		s := asset.NewSync()
		s.Workers, s.Delay = workers, 0
		s.Logger = slog.New(slog.NewTextHandler(io.Discard, nil))
		if c.Explicit {
			s.Assets = append([]string{}, list...)
		}
		var err error
		if verdict, detail := pipe.Call(func() { err = s.Run(fs, ft, day0.AddDate(0, 0, c.Start)) }); verdict != "ok" {
			hang = fmt.Sprintf("Sync.Run with %d workers never returned: %s: %s", workers, verdict, detail)
		}
		return err
	}
	read := func() map[string][]int {
		m := map[string][]int{}
		for _, a := range c.Assets {
			if days, ok := contents(target, a.Name); ok {
				if days == nil {
					days = []int{}
				}
				m[a.Name] = days
			}
		}
		return m
	}
	res.err1 = run()
	if hang != "" {
		return res, hang
	}
	res.state = read()
	res.err2 = run()
	if hang != "" {
		return res, hang
	}
	res.state2 = read()
	for _, a := range c.Assets {
		fs.FailGetSince[a.Name], ft.FailAppend[a.Name] = false, false
	}
	res.err3 = run()
	if hang != "" {
		return res, hang
	}
	res.state3 = read()
	res.source = map[string][]int{}
	for _, a := range c.Assets {
		if days, ok := contents(source, a.Name); ok {
			res.source[a.Name] = days
		}
	}
	return res, ""
}

func eqInts(a, b []int) bool {
	if len(a) != len(b) {
		return false
	}
	for i := range a {
		if a[i] != b[i] {
			return false
		}
	}
	return true
}

func check(c Case) engine.Outcome {
	var o engine.Outcome
	got, msg := execute(c, c.Workers)
	if msg != "" {
		o.Failf("%s", msg)
		return o
	}
	// which assets does the run cover?
	requested := map[string]bool{}
	explicitAny := false
	for _, a := range c.Assets {
		if c.Explicit && a.Requested {
			explicitAny = true
		}
	}
	for _, a := range c.Assets {
		if c.Explicit && explicitAny {
			requested[a.Name] = a.Requested
		} else {
			// an empty list means: every asset of the target
			requested[a.Name] = a.InTarget
		}
	}
	wantErr := false
	boundary, faults := false, 0
	for _, a := range c.Assets {
		before, known := a.Target, a.InTarget
		want := append([]int{}, before...)
		wantKnown := known
		if requested[a.Name] {
			switch {
			case a.FailRead || !a.InSource:
				wantErr = true
				faults++
			default:
				from := c.Start
				if len(before) > 0 {
					from = before[len(before)-1] + 1
				}
				var add []int
				for _, d := range a.Source {
					if d >= from {
						add = append(add, d)
					}
					if len(before) > 0 && d == before[len(before)-1] {
						boundary = true
					}
				}
				if a.FailAppend {
					wantErr = true
					faults++
				} else {
					want = append(want, add...)
					wantKnown = true
				}
			}
		}
		have, ok := got.state[a.Name]
		if wantKnown != ok && !(ok && len(have) == 0 && len(want) == 0) && !(!ok && len(want) == 0) {
			o.Failf("asset %s: known to the target afterwards = %v, expected %v (case %+v)", a.Name, ok, wantKnown, c)
			return o
		}
		if !eqInts(have, want) {
			o.Failf("asset %s (requested=%v, read fault=%v, append fault=%v, in source=%v): target holds days %v after Sync, expected previous %v followed by the source's days on/after the start bound = %v (source %v, default start %d, %d workers)",
				a.Name, requested[a.Name], a.FailRead, a.FailAppend, a.InSource, have, before, want, a.Source, c.Start, c.Workers)
			return o
		}
		if have2 := got.state2[a.Name]; !eqInts(have2, have) {
			o.Failf("asset %s: a second Sync run changed the target from %v to %v", a.Name, have, have2)
			return o
		}
	}
	// the retry after the faults are gone completes what was missing, adds nothing twice, and
	// reading never changes the source
	wantErr3 := false
	for _, a := range c.Assets {
		want := append([]int{}, a.Target...)
		if requested[a.Name] {
			if !a.InSource {
				wantErr3 = true
			} else {
				from := c.Start
				if len(want) > 0 {
					from = want[len(want)-1] + 1
				}
				for _, d := range a.Source {
					if d >= from {
						want = append(want, d)
					}
				}
			}
		}
		if have3 := got.state3[a.Name]; !eqInts(have3, want) {
			o.Failf("asset %s (read fault=%v, append fault=%v on the first two runs): after the retry without faults the target holds days %v, expected previous %v followed by the source's missing days = %v (source %v, default start %d, %d workers)",
				a.Name, a.FailRead, a.FailAppend, have3, a.Target, want, a.Source, c.Start, c.Workers)
			return o
		}
		if a.InSource && !eqInts(got.source[a.Name], a.Source) {
			o.Failf("asset %s: the SOURCE holds days %v after three Sync runs, it held %v before (reading must not change it)", a.Name, got.source[a.Name], a.Source)
			return o
		}
	}
	if (got.err3 != nil) != wantErr3 {
		o.Failf("retry without faults returned error %v, expected an error = %v (only an asset missing from the source can still fail)", got.err3, wantErr3)
		return o
	}
	if (got.err1 != nil) != wantErr {
		o.Failf("Sync returned error %v, expected an error = %v (a requested asset with a read/append fault or missing from the source) (case %+v)", got.err1, wantErr, c)
		return o
	}
	if (got.err2 != nil) != wantErr {
		o.Failf("second Sync run returned error %v, expected an error = %v", got.err2, wantErr)
		return o
	}
	// independence of the worker count
	if c.Workers != 1 {
		one, msg := execute(c, 1)
		if msg != "" {
			o.Failf("%s", msg)
			return o
		}
		names := make([]string, 0, len(got.state))
		for n := range got.state {
			names = append(names, n)
		}
		sort.Strings(names)
		for _, n := range names {
			if !eqInts(one.state[n], got.state[n]) {
				o.Failf("asset %s: %d workers leave %v, one worker leaves %v", n, c.Workers, got.state[n], one.state[n])
				return o
			}
		}
		if (one.err1 != nil) != (got.err1 != nil) {
			o.Failf("error status depends on the worker count: %v vs %v", one.err1, got.err1)
			return o
		}
	}
	o.NonTrivial = len(c.Assets) >= 3 && faults >= 1 && c.Workers >= 2 && boundary
	if c.FS {
		o.Class("file_system_target")
	} else {
		o.Class("in_memory_target")
	}
	if c.Explicit && explicitAny {
		o.Class("explicit_asset_list")
	} else {
		o.Class("assets_taken_from_target")
	}
	o.Add("faulted_assets", faults)
	o.Key = fmt.Sprintf("%+v", c)
	return o
}

func props() []engine.AnyProp {
	return []engine.AnyProp{engine.Prop[Case]{ID: "C12", Subject: "Sync", Gen: genCase, Check: check}, cliProp()}
}

func TestC12(t *testing.T) { engine.RunAll(t, props(), false) }

func TestReplay(t *testing.T) { engine.Replay(t, "C12", props()) }
