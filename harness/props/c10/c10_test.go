// Package c10: repositories behave as a map from asset name to ordered snapshots.
package c10

import (
	"fmt"
	"math"
	"os"
	"path/filepath"
	"sort"
	"strings"
	"testing"
	"time"

	"github.com/cinar/indicator/v2/asset"
	"github.com/cinar/indicator/v2/helper"
	"pgregory.net/rapid"
	"verif/harness/engine"
	"verif/harness/pipe"
	"verif/harness/stub"
)

func TestMain(m *testing.M) { engine.Main(m) }

// asset names: plain, and ones whose tail looks like pieces of the ".csv" suffix
var names = []string{"AAA", "bac", "v.s", "NEVER"}

var day0 = time.Date(2000, 1, 3, 0, 0, 0, 0, time.UTC)

// Snap is a JSON-friendly snapshot: Day is the offset from 2000-01-03.
type Snap struct {
	Day int        `json:"day"`
	F   [5]float64 `json:"f"` // open high low close volume
}

func (s Snap) snapshot() *asset.Snapshot {
	return &asset.Snapshot{Date: day0.AddDate(0, 0, s.Day), Open: s.F[0], High: s.F[1], Low: s.F[2], Close: s.F[3], Volume: s.F[4]}
}

// Op is one repository operation.
type Op struct {
	K     string `json:"k"` // append get since last assets
	Name  int    `json:"name"`
	Batch []Snap `json:"batch,omitempty"`
	// Batch2: second batch of an "overlap" operation (two Append calls on one asset overlapping in
	// time: the first is held half-way while the second runs to completion)
	Batch2 []Snap `json:"batch2,omitempty"`
	Bound  int    `json:"bound,omitempty"` // day offset of the GetSince bound
	// Sec, Zone: the bound is Sec seconds into that UTC day, presented in a zone Zone quarter
	// hours east of UTC (the backtest passes a time.Now()-derived bound; "on or after" is a
	// comparison of instants)
	// Backfill: the batch is dated before snapshots the asset already holds
	Backfill bool `json:"backfill,omitempty"`
	// Src: source asset of a "copy", second asset of a "peek"
	Src  int `json:"src,omitempty"`
	Sec  int `json:"sec,omitempty"`
	Zone int `json:"zone,omitempty"`
}

// Case is an operation history.
type Case struct {
	Ops []Op `json:"ops"`
}

var extremes = []float64{0, math.Copysign(0, -1), 1, -1, 0.1, 1e-7, 123456.789, math.MaxFloat64, -math.MaxFloat64, math.SmallestNonzeroFloat64, -math.SmallestNonzeroFloat64, 1.0000000000000002, 9007199254740993, 2.2250738585072014e-308, 1e21, 1e-320}

func genFloat(t *rapid.T) float64 {
	switch rapid.IntRange(0, 3).Draw(t, "fclass") {
	case 0:
		return rapid.SampledFrom(extremes).Draw(t, "fx")
	case 1:
		return float64(rapid.IntRange(0, 100000).Draw(t, "fi")) / 100
	default:
		v := math.Float64frombits(rapid.Uint64().Draw(t, "bits"))
		if math.IsNaN(v) || math.IsInf(v, 0) {
			return 1.5
		}
		return v
	}
}

func genCase(t *rapid.T) Case {
	n := rapid.IntRange(1, 14).Draw(t, "ops")
	last := map[int]int{} // name -> last day appended
	var dates []int
	touched := map[int]bool{}
	c := Case{}
	for i := 0; i < n; i++ {
		k := rapid.SampledFrom([]string{"append", "append", "append", "append", "get", "since", "since", "last", "assets", "touch", "overlap", "copy", "peek", "nospace"}).Draw(t, "k")
		op := Op{K: k, Name: rapid.IntRange(0, 3).Draw(t, "name")}
		switch k {
		case "copy":
			// Append(dst, GetSince(src, bound)) within one repository: the read is still open while
			// the write runs. dst is a name that holds nothing yet (keeps every list date-ordered).
			op.Src = rapid.IntRange(0, 2).Draw(t, "src")
			op.Name = (op.Src + 1 + rapid.IntRange(0, 1).Draw(t, "dst")) % 3
			if _, used := last[op.Name]; used || touched[op.Name] {
				op.K = "get"
				break
			}
			if len(dates) > 0 {
				op.Bound = rapid.SampledFrom(dates).Draw(t, "cdate")
			}
			if d, ok := last[op.Src]; ok && d >= op.Bound {
				last[op.Name] = d
			} else {
				touched[op.Name] = true // dst may or may not have become known: keep clear of it
			}
		case "peek":
			op.Name = rapid.IntRange(0, 2).Draw(t, "pname")
			op.Src = rapid.IntRange(0, 2).Draw(t, "pother")
		case "touch":
			op.Name = rapid.IntRange(0, 2).Draw(t, "tname")
			touched[op.Name] = true
		case "nospace":
			// an Append that cannot be written (the file sits on a full device) must say so
			op.Name = 3
			for j, m := 0, rapid.IntRange(1, 4).Draw(t, "nbatch"); j < m; j++ {
				sn := Snap{Day: 100 + j}
				for f := range sn.F {
					sn.F[f] = genFloat(t)
				}
				op.Batch = append(op.Batch, sn)
			}
		case "append", "overlap":
			op.Name = rapid.IntRange(0, 2).Draw(t, "aname") // NEVER is never appended
			m := rapid.IntRange(0, 5).Draw(t, "batch")
			m2 := 0
			if k == "overlap" {
				m, m2 = rapid.IntRange(2, 5).Draw(t, "batchA"), rapid.IntRange(1, 4).Draw(t, "batchB")
			}
			d, ok := last[op.Name]
			if !ok {
				d = rapid.IntRange(0, 3000).Draw(t, "start")
			}
			if ok && k == "append" && d > 40 && rapid.IntRange(0, 5).Draw(t, "backfill") == 2 {
				// a back-fill: older days appended after newer ones (the list is in append order)
				op.Backfill = true
				d -= rapid.IntRange(10, 40).Draw(t, "back")
			}
			for j := 0; j < m+m2; j++ {
				d += rapid.IntRange(0, 3).Draw(t, "gap") // non-decreasing, equal dates allowed
				if k == "overlap" {
					d++ // strictly increasing, so that the two batches can be told apart by date
				}
				s := Snap{Day: d}
				for f := range s.F {
					s.F[f] = genFloat(t)
				}
				if j < m {
					op.Batch = append(op.Batch, s)
				} else {
					op.Batch2 = append(op.Batch2, s)
				}
				dates = append(dates, d)
			}
			if m+m2 > 0 && !op.Backfill {
				last[op.Name] = d
			}
		case "since":
			if len(dates) > 0 && rapid.IntRange(0, 4).Draw(t, "onDate") > 0 {
				op.Bound = rapid.SampledFrom(dates).Draw(t, "bdate") + rapid.IntRange(-1, 1).Draw(t, "boff")
			} else {
				op.Bound = rapid.IntRange(-5, 9000).Draw(t, "bound")
			}
			if op.Bound < -2 {
				op.Bound = -2
			}
			if rapid.IntRange(0, 2).Draw(t, "intraday") == 0 {
				op.Sec = rapid.SampledFrom([]int{1, 60, 3600, 43199, 43200, 45000, 86399}).Draw(t, "sec")
				if rapid.Bool().Draw(t, "anysec") {
					op.Sec = rapid.IntRange(1, 86399).Draw(t, "sec2")
				}
			}
			if rapid.IntRange(0, 3).Draw(t, "zoned") == 0 {
				op.Zone = rapid.IntRange(-48, 56).Draw(t, "zone")
			}
		}
		c.Ops = append(c.Ops, op)
	}
	return c
}

type repoMaker struct {
	name string
	open func() (asset.Repository, func(), error)
	// touch leaves an existing but EMPTY store for the name behind (file-system: a zero-byte
	// file, as `touch` or an interrupted write does); nil where there is no such notion.
	touch func(name string) error
	// concurrent says that overlapping Append calls on one asset are within what the repository
	// offers (in-memory: guarded by its mutex; SQL: one INSERT per snapshot). The file-system
	// repository makes no such promise for one file and is only driven sequentially.
	concurrent bool
	// appendOrder: reads return snapshots in append order whatever their dates (in-memory slice,
	// CSV file); a database may order rows by its own rules, so back-fills are not driven there.
	appendOrder bool
	// lastIsMax: LastDate is the latest date held, not the date of the last appended snapshot
	// (the two differ only after overlapping appends).
	lastIsMax bool
	// full makes the store of the name unwritable the way a full disk does (file-system: the file
	// is a link to /dev/full, which opens and truncates fine and fails every write with ENOSPC);
	// it returns the undo.
	full func(name string) (func(), error)
}

func lastOf(want []Snap, max bool) int {
	d := want[len(want)-1].Day
	if max {
		for _, s := range want {
			if s.Day > d {
				d = s.Day
			}
		}
	}
	return d
}

func sameSnap(a *asset.Snapshot, b Snap) bool {
	w := b.snapshot()
	bits := math.Float64bits
	return a.Date.Equal(w.Date) && bits(a.Open) == bits(w.Open) && bits(a.High) == bits(w.High) && bits(a.Low) == bits(w.Low) && bits(a.Close) == bits(w.Close) && bits(a.Volume) == bits(w.Volume)
}

func compare(what string, got []*asset.Snapshot, want []Snap) string {
	if len(got) != len(want) {
		return fmt.Sprintf("%s returned %d snapshots, the model holds %d", what, len(got), len(want))
	}
	for i := range got {
		if got[i] == nil || !sameSnap(got[i], want[i]) {
			return fmt.Sprintf("%s snapshot #%d is %+v, the model holds %+v", what, i, got[i], want[i].snapshot())
		}
	}
	return ""
}

const sqlUnknownKey = "SQLRepository/read-of-unknown-asset-yields-empty-stream"

func prop(mk repoMaker) engine.AnyProp {
	return engine.Prop[Case]{
		ID: "C10", Subject: mk.name, Gen: genCase,
		Check: func(c Case) engine.Outcome {
			var o engine.Outcome
			if verdict, detail := pipe.Call(func() { o = run(mk, c) }); verdict != "ok" {
				o = engine.Outcome{}
				o.Failf("%s: the history %v never finished: %s: %s", mk.name, c.Ops, verdict, detail)
			}
			return o
		},
	}
}

func run(mk repoMaker, c Case) engine.Outcome {
	{
		{
			var o engine.Outcome
			repo, cleanup, err := mk.open()
			if err != nil {
				o.Failf("%s: cannot open repository: %v", mk.name, err)
				return o
			}
			defer cleanup()
			model := map[string][]Snap{}
			known := map[string]bool{}
			appendsTo := map[string]int{}
			hitEqual := false
			// observe checks every read operation of every name against the model.
			observe := func(step int, bound, sec, zone int) bool {
				for _, nm := range names {
					want, isKnown := model[nm], known[nm]
					ch, err := repo.Get(nm)
					var got []*asset.Snapshot
					if err == nil {
						got = helper.ChanToSlice(ch)
					}
					switch {
					case !isKnown && err == nil && len(got) == 0 && strings.HasPrefix(mk.name, "sql"):
						o.KnownAs(sqlUnknownKey)
					case !isKnown && err == nil:
						o.Failf("%s step %d: Get(%q) of a never-appended asset returned no error (%d snapshots)", mk.name, step, nm, len(got))
						return false
					case isKnown && err != nil && len(want) > 0:
						o.Failf("%s step %d: Get(%q) failed: %v; the model holds %d snapshots", mk.name, step, nm, err, len(want))
						return false
					case isKnown && err == nil:
						if msg := compare(fmt.Sprintf("%s step %d: Get(%q)", mk.name, step, nm), got, want); msg != "" {
							o.Failf("%s", msg)
							return false
						}
					}
					bd := day0.AddDate(0, 0, bound).Add(time.Duration(sec) * time.Second)
					if zone != 0 {
						bd = bd.In(time.FixedZone("verif", zone*900))
					}
					if sec != 0 || zone != 0 {
						o.Class("since_bound:not_a_whole_utc_day")
					}
					var wantSince []Snap
					for _, s := range want {
						if s.Day > bound || (s.Day == bound && sec == 0) {
							wantSince = append(wantSince, s)
						}
						if s.Day == bound && appendsTo[nm] >= 2 {
							hitEqual = true
						}
					}
					ch, err = repo.GetSince(nm, bd)
					got = nil
					if err == nil {
						got = helper.ChanToSlice(ch)
					}
					switch {
					case !isKnown && err == nil && len(got) == 0 && strings.HasPrefix(mk.name, "sql"):
						o.KnownAs(sqlUnknownKey)
					case !isKnown && err == nil:
						o.Failf("%s step %d: GetSince(%q) of a never-appended asset returned no error", mk.name, step, nm)
						return false
					case isKnown && err != nil && len(want) > 0:
						o.Failf("%s step %d: GetSince(%q, %s) failed: %v", mk.name, step, nm, bd.Format(time.RFC3339), err)
						return false
					case isKnown && err == nil:
						if msg := compare(fmt.Sprintf("%s step %d: GetSince(%q, %s)", mk.name, step, nm, bd.Format(time.RFC3339)), got, wantSince); msg != "" {
							o.Failf("%s (exactly those dated on or after the bound)", msg)
							return false
						}
					}
					ld, err := repo.LastDate(nm)
					if len(want) == 0 {
						if err == nil {
							o.Failf("%s step %d: LastDate(%q) of an asset without snapshots returned %v and no error", mk.name, step, nm, ld)
							return false
						}
					} else if lastDay := lastOf(want, mk.lastIsMax); err != nil || !ld.Equal(day0.AddDate(0, 0, lastDay)) {
						o.Failf("%s step %d: LastDate(%q) = %v, %v; the last snapshot is dated %v", mk.name, step, nm, ld, err, day0.AddDate(0, 0, lastDay))
						return false
					}
				}
				as, err := repo.Assets()
				if err != nil {
					o.Failf("%s step %d: Assets failed: %v", mk.name, step, err)
					return false
				}
				set := map[string]int{}
				for _, a := range as {
					set[a]++
				}
				for nm := range set {
					if !known[nm] {
						o.Failf("%s step %d: Assets lists %q, which was never appended (%v)", mk.name, step, nm, as)
						return false
					}
					if set[nm] > 1 {
						o.Failf("%s step %d: Assets lists %q %d times", mk.name, step, nm, set[nm])
						return false
					}
				}
				for nm, snaps := range model {
					if len(snaps) > 0 && set[nm] == 0 {
						sort.Strings(as)
						o.Failf("%s step %d: Assets %v does not list %q, which holds %d snapshots", mk.name, step, as, nm, len(snaps))
						return false
					}
				}
				return true
			}
			lastBound, lastSec, lastZone := 0, 0, 0
			for i, op := range c.Ops {
				nm := names[op.Name]
				switch op.K {
				case "append":
					if op.Backfill && !mk.appendOrder {
						break // only where "ordered" means append order by construction
					}
					if op.Backfill {
						o.Class("backfill_append")
					}
					batch := make([]*asset.Snapshot, len(op.Batch))
					for j, s := range op.Batch {
						batch[j] = s.snapshot()
					}
					var src <-chan *asset.Snapshot
					switch (i + len(batch)) % 3 {
					case 0:
						src = helper.SliceToChan(batch)
					case 1:
						// a buffered channel that already holds the whole batch and is closed
						ch := make(chan *asset.Snapshot, len(batch)+1)
						for _, sn := range batch {
							ch <- sn
						}
						close(ch)
						src = ch
						o.Add("appends_from_a_prefilled_buffered_channel", 1)
					default:
						// a buffered channel that is half full when Append starts
						ch := make(chan *asset.Snapshot, 2)
						k := 0
						for ; k < len(batch) && k < 2; k++ {
							ch <- batch[k]
						}
						go func(rest []*asset.Snapshot) {
							for _, sn := range rest {
								ch <- sn
							}
							close(ch)
						}(batch[k:])
						src = ch
					}
					if err := repo.Append(nm, src); err != nil {
						o.Failf("%s step %d: Append(%q, %d snapshots) failed: %v", mk.name, i, nm, len(batch), err)
						return o
					}
					model[nm] = append(model[nm], op.Batch...)
					known[nm] = true
					appendsTo[nm]++
				case "overlap":
					if !mk.concurrent {
						// sequential fallback: two ordinary appends
						for _, b := range [][]Snap{op.Batch, op.Batch2} {
							batch := make([]*asset.Snapshot, len(b))
							for j, s := range b {
								batch[j] = s.snapshot()
							}
							if err := repo.Append(nm, helper.SliceToChan(batch)); err != nil {
								o.Failf("%s step %d: Append failed: %v", mk.name, i, err)
								return o
							}
							model[nm] = append(model[nm], b...)
						}
						known[nm] = true
						appendsTo[nm] += 2
						break
					}
					// Append A is fed half of its batch and then held; Append B runs to completion and
					// returns; then A gets the rest. Every snapshot of both must be there afterwards.
					chA := make(chan *asset.Snapshot)
					errA := make(chan error, 1)
					go func() { errA <- repo.Append(nm, chA) }()
					half := len(op.Batch) / 2
					for _, s := range op.Batch[:half] {
						chA <- s.snapshot()
					}
					batchB := make([]*asset.Snapshot, len(op.Batch2))
					for j, s := range op.Batch2 {
						batchB[j] = s.snapshot()
					}
					if err := repo.Append(nm, helper.SliceToChan(batchB)); err != nil {
						o.Failf("%s step %d: overlapping Append B failed: %v", mk.name, i, err)
						return o
					}
					// B has returned: it must be visible now ...
					if ch, err := repo.Get(nm); err == nil {
						seen := 0
						for sn := range ch {
							for _, b := range op.Batch2 {
								if sameSnap(sn, b) {
									seen++
									break
								}
							}
						}
						if seen < len(op.Batch2) {
							o.Failf("%s step %d: an Append of %d snapshots to %q has returned (while another Append to it is still in progress) but only %d of them are visible", mk.name, i, len(op.Batch2), nm, seen)
							return o
						}
					}
					for _, s := range op.Batch[half:] {
						chA <- s.snapshot()
					}
					close(chA)
					if err := <-errA; err != nil {
						o.Failf("%s step %d: overlapping Append A failed: %v", mk.name, i, err)
						return o
					}
					// ... and stay visible: the asset holds the previous snapshots followed by an
					// interleaving of A and B that keeps each batch's order
					ch, err := repo.Get(nm)
					if err != nil {
						o.Failf("%s step %d: Get after overlapping appends: %v", mk.name, i, err)
						return o
					}
					got := helper.ChanToSlice(ch)
					prev := len(model[nm])
					if len(got) != prev+len(op.Batch)+len(op.Batch2) {
						o.Failf("%s step %d: after two overlapping Append calls (%d and %d snapshots, both returned) %q holds %d snapshots, want %d + %d + %d: an Append that has returned is not visible", mk.name, i, len(op.Batch), len(op.Batch2), nm, len(got), prev, len(op.Batch), len(op.Batch2))
						return o
					}
					ia, ib := 0, 0
					var merged []Snap
					for _, sn := range got[prev:] {
						switch {
						case ia < len(op.Batch) && sameSnap(sn, op.Batch[ia]):
							merged = append(merged, op.Batch[ia])
							ia++
						case ib < len(op.Batch2) && sameSnap(sn, op.Batch2[ib]):
							merged = append(merged, op.Batch2[ib])
							ib++
						default:
							o.Failf("%s step %d: after overlapping appends snapshot %+v is neither the next of batch A nor of batch B", mk.name, i, sn)
							return o
						}
					}
					model[nm] = append(model[nm], merged...)
					known[nm] = true
					appendsTo[nm] += 2
					o.Add("overlapping_append_pairs", 1)
				case "copy":
					src := names[op.Src]
					if !known[src] || len(model[nm]) > 0 || known[nm] {
						break
					}
					ch, err := repo.GetSince(src, day0.AddDate(0, 0, op.Bound))
					if err != nil {
						if len(model[src]) > 0 {
							o.Failf("%s step %d: GetSince(%q) failed: %v", mk.name, i, src, err)
							return o
						}
						break
					}
					if err := repo.Append(nm, ch); err != nil {
						o.Failf("%s step %d: Append(%q, GetSince(%q, day %d)) failed: %v", mk.name, i, nm, src, op.Bound, err)
						return o
					}
					for _, sn := range model[src] {
						if sn.Day >= op.Bound {
							model[nm] = append(model[nm], sn)
						}
					}
					known[nm] = true
					appendsTo[nm]++
					o.Add("copies_within_one_repository", 1)
				case "peek":
					// a Get stream is left open after its first snapshot while other calls are made
					if len(model[nm]) < 2 {
						break
					}
					ch, err := repo.Get(nm)
					if err != nil {
						o.Failf("%s step %d: Get(%q) failed: %v", mk.name, i, nm, err)
						return o
					}
					got := []*asset.Snapshot{<-ch}
					other := names[op.Src]
					if ld, err := repo.LastDate(nm); err != nil || !ld.Equal(day0.AddDate(0, 0, lastOf(model[nm], mk.lastIsMax))) {
						o.Failf("%s step %d: LastDate(%q) while a Get stream is open = %v, %v", mk.name, i, nm, ld, err)
						return o
					}
					if _, err := repo.Assets(); err != nil {
						o.Failf("%s step %d: Assets while a Get stream is open: %v", mk.name, i, err)
						return o
					}
					if known[other] {
						if och, err := repo.Get(other); err == nil {
							if msg := compare(fmt.Sprintf("%s step %d: Get(%q) while a Get(%q) stream is open", mk.name, i, other, nm), helper.ChanToSlice(och), model[other]); msg != "" {
								o.Failf("%s", msg)
								return o
							}
						}
					}
					for sn := range ch {
						got = append(got, sn)
					}
					if msg := compare(fmt.Sprintf("%s step %d: Get(%q) read in two parts", mk.name, i, nm), got, model[nm]); msg != "" {
						o.Failf("%s", msg)
						return o
					}
					o.Add("reads_left_open_across_other_calls", 1)
				case "since":
					lastBound, lastSec, lastZone = op.Bound, op.Sec, op.Zone
				case "nospace":
					if mk.full == nil {
						break
					}
					undo, err := mk.full("FULL")
					if err != nil {
						o.Failf("harness: %v", err)
						return o
					}
					batch := make([]*asset.Snapshot, len(op.Batch))
					for j, sn := range op.Batch {
						batch[j] = sn.snapshot()
					}
					err = repo.Append("FULL", helper.SliceToChan(batch))
					undo()
					if err == nil {
						o.Failf("%s step %d: Append of %d snapshots to an asset whose file is on a full device (every write fails with ENOSPC) returned no error: the snapshots are lost silently", mk.name, i, len(batch))
						return o
					}
					o.Add("appends_to_a_full_device_reported", 1)
				case "touch":
					// only for an asset that holds nothing yet: an empty file appears out of band
					if mk.touch != nil && len(model[nm]) == 0 {
						if err := mk.touch(nm); err != nil {
							o.Failf("harness: touch: %v", err)
							return o
						}
						known[nm] = true
						o.Add("empty_files_left_behind", 1)
					}
				}
				// an Append that has returned is visible to every later read: observe after every step
				if !observe(i, lastBound, lastSec, lastZone) {
					return o
				}
			}
			o.NonTrivial = hitEqual
			o.Add("operations", len(c.Ops))
			o.Key = fmt.Sprint(c.Ops)
			return o
		}
	}
}

var sqlSeq int

func makers() []repoMaker {
	return []repoMaker{
		// the same repository obtained through the factory the command-line programs use: every
		// repository it hands out is a map of its own
		{name: "memory/factory", concurrent: true, appendOrder: true, open: func() (asset.Repository, func(), error) {
			r, err := asset.NewRepository(asset.InMemoryRepositoryBuilderName, "")
			return r, func() {}, err
		}},
		{name: "memory", concurrent: true, appendOrder: true, open: func() (asset.Repository, func(), error) { return asset.NewInMemoryRepository(), func() {}, nil }},
		func() repoMaker {
			dir := ""
			return repoMaker{name: "filesystem", appendOrder: true, open: func() (asset.Repository, func(), error) {
				d, err := os.MkdirTemp("", "verif-c10-")
				if err != nil {
					return nil, nil, err
				}
				dir = d
				return asset.NewFileSystemRepository(d), func() { _ = os.RemoveAll(d) }, nil
			}, touch: func(name string) error { return os.WriteFile(filepath.Join(dir, name+".csv"), nil, 0o600) },
				full: func(name string) (func(), error) {
					p := filepath.Join(dir, name+".csv")
					return func() { _ = os.Remove(p) }, os.Symlink("/dev/full", p)
				}}
		}(),
		{name: "sql", concurrent: true, open: func() (asset.Repository, func(), error) {
			sqlSeq++
			db := fmt.Sprintf("c10-%d-%d", engine.Shard(), sqlSeq)
			r, err := asset.NewSQLRepository(stub.SQLDriverName, db, stub.MemDialect{})
			if err != nil {
				return nil, nil, err
			}
			return r, func() { _ = r.Close(); stub.ResetSQL(db) }, nil
		}},
		// the other dialect a conforming driver may come with: the last date as SELECT MAX(date)
		// (one NULL row for an asset without snapshots instead of no row; "last" = latest)
		{name: "sql/max-dialect", concurrent: true, lastIsMax: true, open: func() (asset.Repository, func(), error) {
			sqlSeq++
			db := fmt.Sprintf("c10m-%d-%d", engine.Shard(), sqlSeq)
			r, err := asset.NewSQLRepository(stub.SQLDriverName, db, stub.MaxDialect{})
			if err != nil {
				return nil, nil, err
			}
			return r, func() { _ = r.Close(); stub.ResetSQL(db) }, nil
		}},
	}
}

func props() []engine.AnyProp {
	var ps []engine.AnyProp
	for _, m := range makers() {
		ps = append(ps, prop(m))
	}
	return ps
}

func TestC10(t *testing.T) { engine.RunAll(t, props(), false) }

func TestReplay(t *testing.T) { engine.Replay(t, "C10", props()) }
