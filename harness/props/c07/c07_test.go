// Package c07: combinators (And, Or, Majority, Split, MACD-RSI) and decorators (Inverse, No-Loss,
// Stop-Loss) are the documented functions of their wrapped strategies' action streams.
package c07

import (
	"fmt"
	"math"
	"testing"

	"github.com/cinar/indicator/v2/asset"
	"github.com/cinar/indicator/v2/momentum"
	"github.com/cinar/indicator/v2/strategy"
	"github.com/cinar/indicator/v2/strategy/compound"
	"github.com/cinar/indicator/v2/strategy/decorator"
	smomentum "github.com/cinar/indicator/v2/strategy/momentum"
	strend "github.com/cinar/indicator/v2/strategy/trend"
	"pgregory.net/rapid"
	"verif/harness/engine"
	"verif/harness/gen"
	"verif/harness/pipe"
	"verif/harness/stub"
)

func TestMain(m *testing.M) { engine.Main(m) }

const (
	B = strategy.Buy
	H = strategy.Hold
	S = strategy.Sell
)

// Case: k scripted sources, closings, a stop-loss fraction and a decorator nesting.
type Case struct {
	Words  [][]int   `json:"words"`
	Closes []float64 `json:"closes"`
	Pct    float64   `json:"pct"`
	Perm   []int     `json:"perm"` // a permutation of the sources
	Nest   []string  `json:"nest"` // decorators applied to source 0, innermost first
	Cap    int       `json:"cap"`
}

func genCase(t *rapid.T) Case {
	n := rapid.IntRange(0, 40).Draw(t, "n")
	k := rapid.IntRange(1, 5).Draw(t, "k")
	c := Case{Closes: make([]float64, n), Pct: float64(rapid.IntRange(0, 63).Draw(t, "pct")) / 64, Cap: rapid.IntRange(0, 2).Draw(t, "cap")}
	dens := rapid.IntRange(1, 4).Draw(t, "dens")
	for i := 0; i < k; i++ {
		w := make([]int, n)
		for j := range w {
			if rapid.IntRange(0, 4).Draw(t, "act") < dens {
				w[j] = rapid.SampledFrom([]int{-1, 1}).Draw(t, "a")
			}
		}
		c.Words = append(c.Words, w)
	}
	x := float64(rapid.IntRange(40, 400).Draw(t, "c0"))
	for i := range c.Closes {
		x += float64(rapid.IntRange(-40, 40).Draw(t, "d")) / 4
		if x < 1 {
			x = 1
		}
		c.Closes[i] = x
	}
	c.Perm = rapid.Permutation(seq(k)).Draw(t, "perm")
	depth := rapid.IntRange(0, 3).Draw(t, "depth")
	for i := 0; i < depth; i++ {
		c.Nest = append(c.Nest, rapid.SampledFrom([]string{"inverse", "noloss", "stoploss"}).Draw(t, "dec"))
	}
	return c
}

func seq(k int) []int {
	out := make([]int, k)
	for i := range out {
		out[i] = i
	}
	return out
}

func acts(xs []int) []strategy.Action {
	out := make([]strategy.Action, len(xs))
	for i, x := range xs {
		out[i] = strategy.Action(x)
	}
	return out
}

func run(s strategy.Strategy, sn []*asset.Snapshot, capa int) ([]strategy.Action, string) {
	res := pipe.Run([][]*asset.Snapshot{sn}, pipe.Opts{Cap: capa}, func(cs []<-chan *asset.Snapshot) []<-chan strategy.Action {
		return []<-chan strategy.Action{s.Compute(cs[0])}
	})
	if !res.OK() {
		return nil, res.Verdict + ": " + res.Detail
	}
	return res.Outs[0], ""
}

// slice models of the doc comments
func invertModel(w []strategy.Action) []strategy.Action {
	out := make([]strategy.Action, len(w))
	for i, a := range w {
		out[i] = -a
	}
	return out
}

// noLossModel: Buy when the inner says Buy and nothing is held; Sell when the inner says Sell,
// something is held and the close is above the purchase close; Hold otherwise.
func noLossModel(w []strategy.Action, cl []float64) []strategy.Action {
	out := make([]strategy.Action, len(w))
	held, at := false, 0.0
	for i, a := range w {
		switch {
		case a == B && !held:
			held, at = true, cl[i]
			out[i] = B
		case a == S && held && at < cl[i]:
			held = false
			out[i] = S
		}
	}
	return out
}

// stopLossModel: Buy as the inner recommends while nothing is held; while held, Sell at the first
// bar where the inner says Sell or the close is at or below purchase close x (1 - pct).
func stopLossModel(w []strategy.Action, cl []float64, pct float64) []strategy.Action {
	out := make([]strategy.Action, len(w))
	held, level := false, 0.0
	for i, a := range w {
		switch {
		case a == B && !held:
			held, level = true, cl[i]*(1-pct)
			out[i] = B
		case held && (a == S || cl[i] <= level):
			held = false
			out[i] = S
		}
	}
	return out
}

func eq(a, b []strategy.Action) bool {
	if len(a) != len(b) {
		return false
	}
	for i := range a {
		if a[i] != b[i] {
			return false
		}
	}
	return true
}

func check(c Case) engine.Outcome {
	var o engine.Outcome
	n, k := len(c.Closes), len(c.Words)
	sn := stub.SnapshotsFromCloses(c.Closes)
	words := make([][]strategy.Action, k)
	den := make([][]strategy.Action, k)
	subs := make([]strategy.Strategy, k)
	for i := range words {
		words[i] = acts(c.Words[i])
		den[i] = stub.Denormalize(words[i])
		subs[i] = &stub.Scripted{Label: fmt.Sprint("s", i), Word: words[i]}
	}
	perm := make([]strategy.Strategy, k)
	for i, j := range c.Perm {
		perm[i] = subs[j]
	}
	wantAnd, wantOr, wantMaj := make([]strategy.Action, n), make([]strategy.Action, n), make([]strategy.Action, n)
	conflict, unanimous := false, false
	for i := 0; i < n; i++ {
		b, h, s := 0, 0, 0
		for _, d := range den {
			switch d[i] {
			case B:
				b++
			case S:
				s++
			default:
				h++
			}
		}
		if s == k {
			wantAnd[i] = S
		} else if b == k {
			wantAnd[i] = B
		}
		if s > 0 && b == 0 {
			wantOr[i] = S
		} else if b > 0 && s == 0 {
			wantOr[i] = B
		}
		if s > b && s > h {
			wantMaj[i] = S
		} else if b > s && b > h {
			wantMaj[i] = B
		}
		if b > 0 && s > 0 {
			conflict = true
		}
		if (b == k || s == k) && k > 1 {
			unanimous = true
		}
	}
	type combo struct {
		name string
		mk   func(ss []strategy.Strategy) strategy.Strategy
		want []strategy.Action
	}
	combos := []combo{
		{"And", func(ss []strategy.Strategy) strategy.Strategy { return strategy.NewAndStrategy("and", ss...) }, wantAnd},
		{"Or", func(ss []strategy.Strategy) strategy.Strategy { return strategy.NewOrStrategy("or", ss...) }, wantOr},
		{"Majority", func(ss []strategy.Strategy) strategy.Strategy { return strategy.NewMajorityStrategyWith("maj", ss) }, wantMaj},
	}
	results := map[string][]strategy.Action{}
	for _, cb := range combos {
		got, msg := run(cb.mk(subs), sn, c.Cap)
		if msg != "" {
			o.Failf("%s over %d sources: %s", cb.name, k, msg)
			return o
		}
		if !eq(got, cb.want) {
			o.Failf("%s(%v) = %v, documented vote over the standing recommendations gives %v", cb.name, c.Words, got, cb.want)
			return o
		}
		results[cb.name] = got
		// permutation invariance of the sources
		got2, msg := run(cb.mk(perm), sn, 0)
		if msg != "" || !eq(got2, got) {
			o.Failf("%s changes when its sources are permuted by %v: %v vs %v %s", cb.name, c.Perm, got, got2, msg)
			return o
		}
	}
	for i := 0; i < n; i++ {
		if a := results["And"][i]; a != H && results["Or"][i] != a && k >= 1 {
			o.Failf("position %d: And says %v but Or says %v", i, a, results["Or"][i])
			return o
		}
	}
	if k == 1 {
		// And(s) = Or(s) = Majority(s) = Denormalize(s)
		for _, name := range []string{"And", "Or", "Majority"} {
			if !eq(results[name], den[0]) {
				o.Failf("%s of a single source = %v, want its standing recommendation %v", name, results[name], den[0])
				return o
			}
		}
	}
	if k >= 2 {
		got, msg := run(strategy.NewSplitStrategy(subs[0], subs[1]), sn, c.Cap)
		want := make([]strategy.Action, n)
		for i := 0; i < n; i++ {
			if words[0][i] == B && words[1][i] != S {
				want[i] = B
			} else if words[1][i] == S && words[0][i] != B {
				want[i] = S
			}
		}
		if msg != "" || !eq(got, want) {
			o.Failf("Split(%v, %v) = %v, want %v %s", c.Words[0], c.Words[1], got, want, msg)
			return o
		}
	}
	// decorators on source 0
	inv, msg := run(decorator.NewInverseStrategy(subs[0]), sn, c.Cap)
	if msg != "" || !eq(inv, invertModel(words[0])) {
		o.Failf("Inverse(%v) = %v %s", c.Words[0], inv, msg)
		return o
	}
	inv2, msg := run(decorator.NewInverseStrategy(decorator.NewInverseStrategy(subs[0])), sn, 0)
	if msg != "" || !eq(inv2, words[0]) {
		o.Failf("Inverse(Inverse(%v)) = %v %s", c.Words[0], inv2, msg)
		return o
	}
	nl, msg := run(decorator.NewNoLossStrategy(subs[0]), sn, c.Cap)
	if msg != "" || !eq(nl, noLossModel(words[0], c.Closes)) {
		o.Failf("NoLoss(%v) on closes %v = %v, want %v %s", c.Words[0], c.Closes, nl, noLossModel(words[0], c.Closes), msg)
		return o
	}
	// history invariant of the statement, independent of the model: every emitted Sell is at a
	// close above the close of its preceding emitted Buy; Buys and Sells alternate
	suppressed := 0
	{
		bought := math.NaN()
		for i, a := range nl {
			switch a {
			case B:
				if !math.IsNaN(bought) {
					o.Failf("NoLoss emitted Buy at %d while already holding", i)
					return o
				}
				bought = c.Closes[i]
			case S:
				if math.IsNaN(bought) || !(c.Closes[i] > bought) {
					o.Failf("NoLoss sold at close %v, purchase close %v", c.Closes[i], bought)
					return o
				}
				bought = math.NaN()
			default:
				if words[0][i] == S && !math.IsNaN(bought) {
					suppressed++
				}
			}
		}
	}
	sl, msg := run(decorator.NewStopLossStrategy(subs[0], c.Pct), sn, c.Cap)
	if msg != "" || !eq(sl, stopLossModel(words[0], c.Closes, c.Pct)) {
		o.Failf("StopLoss(%v, %v) on closes %v = %v, want %v %s", c.Words[0], c.Pct, c.Closes, sl, stopLossModel(words[0], c.Closes, c.Pct), msg)
		return o
	}
	stops := 0
	{
		level := math.NaN()
		for i, a := range sl {
			switch a {
			case B:
				if !math.IsNaN(level) {
					o.Failf("StopLoss emitted Buy at %d while holding", i)
					return o
				}
				level = c.Closes[i] * (1 - c.Pct)
			case S:
				if math.IsNaN(level) {
					o.Failf("StopLoss emitted Sell at %d without holding", i)
					return o
				}
				if words[0][i] != S {
					stops++
				}
				level = math.NaN()
			default:
				if !math.IsNaN(level) && (words[0][i] == S || c.Closes[i] <= level) {
					o.Failf("StopLoss held at %d although inner=%v close=%v stop level=%v", i, words[0][i], c.Closes[i], level)
					return o
				}
			}
		}
	}
	// generated nesting of decorators: model composed the same way
	if len(c.Nest) > 0 {
		var st strategy.Strategy = subs[0]
		model := words[0]
		for _, d := range c.Nest {
			switch d {
			case "inverse":
				st, model = decorator.NewInverseStrategy(st), invertModel(model)
			case "noloss":
				st, model = decorator.NewNoLossStrategy(st), noLossModel(model, c.Closes)
			case "stoploss":
				st, model = decorator.NewStopLossStrategy(st, c.Pct), stopLossModel(model, c.Closes, c.Pct)
			}
		}
		got, msg := run(st, sn, c.Cap)
		if msg != "" || !eq(got, model) {
			o.Failf("decorators %v over %v = %v, composed models give %v %s", c.Nest, c.Words[0], got, model, msg)
			return o
		}
		o.Class(fmt.Sprintf("nesting_depth_%d", len(c.Nest)))
	}
	o.NonTrivial = (conflict && unanimous) || suppressed > 0 || stops > 0
	if conflict {
		o.Class("has_conflict_position")
	}
	if unanimous {
		o.Class("has_unanimous_position")
	}
	o.Add("noloss_suppressed_sells", suppressed)
	o.Add("stoploss_triggered_stops", stops)
	o.Key = fmt.Sprint(c.Words, c.Closes, c.Pct, c.Nest)
	return o
}

// ---- nested expressions over scripted leaves: the model composes the documented functions ----

// Expr is a combinator / decorator expression whose leaves are scripted strategies.
type Expr struct {
	Op   string `json:"op"` // leaf and or majority split inverse noloss stoploss
	Leaf int    `json:"leaf,omitempty"`
	Kids []Expr `json:"kids,omitempty"`
}

func (e Expr) String() string {
	if e.Op == "leaf" {
		return fmt.Sprint("s", e.Leaf)
	}
	out := e.Op + "("
	for i, k := range e.Kids {
		if i > 0 {
			out += ","
		}
		out += k.String()
	}
	return out + ")"
}

// ExprCase is a nested expression with its leaf words and closing prices.
type ExprCase struct {
	// Share: identical sub-expressions are ONE instance used at several places of the tree (a
	// decorator that keeps per-run state on its receiver mixes up the computations)
	Share  bool      `json:"share,omitempty"`
	Expr   Expr      `json:"expr"`
	Words  [][]int   `json:"words"`
	Closes []float64 `json:"closes"`
	Pct    float64   `json:"pct"`
}

func genExpr(t *rapid.T, leaves, depth int) Expr {
	if depth <= 0 || rapid.IntRange(0, 3).Draw(t, "stop") == 0 {
		return Expr{Op: "leaf", Leaf: rapid.IntRange(0, leaves-1).Draw(t, "leaf")}
	}
	op := rapid.SampledFrom([]string{"and", "and", "or", "majority", "split", "inverse", "noloss", "stoploss"}).Draw(t, "op")
	e := Expr{Op: op}
	n := 1
	switch op {
	case "split":
		n = 2
	case "and", "or", "majority":
		n = rapid.IntRange(1, 3).Draw(t, "k")
	}
	for i := 0; i < n; i++ {
		if i > 0 && rapid.IntRange(0, 3).Draw(t, "same_as_first") == 0 {
			e.Kids = append(e.Kids, e.Kids[0]) // the same sub-expression twice
			continue
		}
		e.Kids = append(e.Kids, genExpr(t, leaves, depth-1))
	}
	return e
}

func (e Expr) build(leaves []strategy.Strategy, pct float64, shared map[string]strategy.Strategy) (out strategy.Strategy) {
	if e.Op == "leaf" {
		return leaves[e.Leaf]
	}
	if shared != nil {
		key := e.String()
		if s, ok := shared[key]; ok {
			return s
		}
		defer func() { shared[key] = out }()
	}
	kids := make([]strategy.Strategy, len(e.Kids))
	for i, k := range e.Kids {
		kids[i] = k.build(leaves, pct, shared)
	}
	switch e.Op {
	case "and":
		return strategy.NewAndStrategy("and", kids...)
	case "or":
		return strategy.NewOrStrategy("or", kids...)
	case "majority":
		return strategy.NewMajorityStrategyWith("majority", kids)
	case "split":
		return strategy.NewSplitStrategy(kids[0], kids[1])
	case "inverse":
		return decorator.NewInverseStrategy(kids[0])
	case "noloss":
		return decorator.NewNoLossStrategy(kids[0])
	}
	return decorator.NewStopLossStrategy(kids[0], pct)
}

// model evaluates the documented function of the expression on slices.
func (e Expr) model(words [][]strategy.Action, cl []float64, pct float64) []strategy.Action {
	if e.Op == "leaf" {
		return words[e.Leaf]
	}
	kids := make([][]strategy.Action, len(e.Kids))
	for i, k := range e.Kids {
		kids[i] = k.model(words, cl, pct)
	}
	// a group ends with its shortest member; a decorator is as long as its inner stream
	n := len(cl)
	for _, k := range kids {
		if len(k) < n {
			n = len(k)
		}
	}
	out := make([]strategy.Action, n)
	switch e.Op {
	case "inverse":
		return invertModel(kids[0])
	case "noloss":
		return noLossModel(kids[0], cl[:n])
	case "stoploss":
		return stopLossModel(kids[0], cl[:n], pct)
	case "split":
		for i := 0; i < n; i++ {
			if kids[0][i] == B && kids[1][i] != S {
				out[i] = B
			} else if kids[1][i] == S && kids[0][i] != B {
				out[i] = S
			}
		}
		return out
	}
	den := make([][]strategy.Action, len(kids))
	for i := range kids {
		den[i] = stub.Denormalize(kids[i])
	}
	k := len(kids)
	for i := 0; i < n; i++ {
		b, h, s := 0, 0, 0
		for _, d := range den {
			switch d[i] {
			case B:
				b++
			case S:
				s++
			default:
				h++
			}
		}
		switch e.Op {
		case "and":
			if s == k {
				out[i] = S
			} else if b == k {
				out[i] = B
			}
		case "or":
			if s > 0 && b == 0 {
				out[i] = S
			} else if b > 0 && s == 0 {
				out[i] = B
			}
		case "majority":
			if s > b && s > h {
				out[i] = S
			} else if b > s && b > h {
				out[i] = B
			}
		}
	}
	return out
}

func (e Expr) depth() int {
	d := 0
	for _, k := range e.Kids {
		if kd := k.depth() + 1; kd > d {
			d = kd
		}
	}
	return d
}

func exprProp() engine.AnyProp {
	return engine.Prop[ExprCase]{ID: "C07", Subject: "NestedExpressions",
		Gen: func(t *rapid.T) ExprCase {
			n := rapid.IntRange(0, 30).Draw(t, "n")
			leaves := rapid.IntRange(1, 4).Draw(t, "leaves")
			c := ExprCase{Closes: make([]float64, n), Pct: float64(rapid.IntRange(0, 31).Draw(t, "pct")) / 64}
			for i := 0; i < leaves; i++ {
				m := n
				if n > 0 && rapid.IntRange(0, 4).Draw(t, "short_member") == 2 {
					// a member whose action stream ends early
					m = n - rapid.IntRange(1, 8).Draw(t, "short_by")
					if m < 0 {
						m = 0
					}
				}
				w := make([]int, m)
				dens := rapid.IntRange(1, 3).Draw(t, "dens")
				for j := range w {
					if rapid.IntRange(0, 3).Draw(t, "act") < dens {
						w[j] = rapid.SampledFrom([]int{-1, 1}).Draw(t, "a")
					}
				}
				c.Words = append(c.Words, w)
			}
			x := float64(rapid.IntRange(40, 400).Draw(t, "c0"))
			for i := range c.Closes {
				x += float64(rapid.IntRange(-40, 40).Draw(t, "d")) / 4
				if x < 1 {
					x = 1
				}
				c.Closes[i] = x
			}
			c.Share = rapid.Bool().Draw(t, "share")
			c.Expr = genExpr(t, leaves, 3)
			if c.Expr.Op == "leaf" {
				c.Expr = Expr{Op: "and", Kids: []Expr{c.Expr, genExpr(t, leaves, 2)}}
			}
			return c
		},
		Check: func(c ExprCase) engine.Outcome {
			var o engine.Outcome
			words := make([][]strategy.Action, len(c.Words))
			leaves := make([]strategy.Strategy, len(c.Words))
			for i := range words {
				words[i] = acts(c.Words[i])
				leaves[i] = &stub.Scripted{Label: fmt.Sprint("s", i), Word: words[i], Stop: len(words[i]) < len(c.Closes)}
				if len(words[i]) < len(c.Closes) {
					o.Class("a_member_stream_ends_early")
				}
			}
			var shared map[string]strategy.Strategy
			if c.Share {
				shared = map[string]strategy.Strategy{}
				o.Class("shared_instances")
			}
			got, msg := run(c.Expr.build(leaves, c.Pct, shared), stub.SnapshotsFromCloses(c.Closes), 0)
			if msg != "" {
				o.Failf("%s: %s", c.Expr, msg)
				return o
			}
			want := c.Expr.model(words, c.Closes, c.Pct)
			if !eq(got, want) {
				o.Failf("%s over %v on closes %v = %v, the documented functions composed give %v", c.Expr, c.Words, c.Closes, got, want)
				return o
			}
			nonHold := 0
			for _, a := range want {
				if a != H {
					nonHold++
				}
			}
			o.NonTrivial = c.Expr.depth() >= 2 && nonHold > 0
			o.Class(fmt.Sprintf("depth_%d", c.Expr.depth()))
			o.Class("root:" + c.Expr.Op)
			o.Key = fmt.Sprint(c.Expr, c.Words, c.Closes, c.Pct)
			return o
		}}
}

// ---- AllAndStrategies / AllSplitStrategies: every ordered pair of distinct strategies ----

// PairsCase holds k scripted words and closes.
type PairsCase struct {
	Words  [][]int   `json:"words"`
	Closes []float64 `json:"closes"`
}

func pairsProp() engine.AnyProp {
	return engine.Prop[PairsCase]{ID: "C07", Subject: "AllAndStrategies+AllSplitStrategies",
		Gen: func(t *rapid.T) PairsCase {
			n := rapid.IntRange(0, 16).Draw(t, "n")
			k := rapid.IntRange(0, 4).Draw(t, "k")
			c := PairsCase{Closes: make([]float64, n)}
			for i := 0; i < k; i++ {
				w := make([]int, n)
				for j := range w {
					w[j] = rapid.IntRange(-1, 1).Draw(t, "a")
				}
				c.Words = append(c.Words, w)
			}
			for i := range c.Closes {
				c.Closes[i] = 10 + float64(i)
			}
			return c
		},
		Check: func(c PairsCase) engine.Outcome {
			var o engine.Outcome
			k := len(c.Words)
			words := make([][]strategy.Action, k)
			leaves := make([]strategy.Strategy, k)
			for i := range words {
				words[i] = acts(c.Words[i])
				leaves[i] = &stub.Scripted{Label: fmt.Sprint("s", i), Word: words[i]}
			}
			ands, splits := strategy.AllAndStrategies(leaves), strategy.AllSplitStrategies(leaves)
			if len(ands) != k*(k-1) && !(k == 0 && len(ands) == 0) || len(splits) != len(ands) {
				o.Failf("%d strategies: AllAndStrategies returns %d and AllSplitStrategies %d strategies, every ordered pair of distinct ones makes %d", k, len(ands), len(splits), k*(k-1))
				return o
			}
			sn := stub.SnapshotsFromCloses(c.Closes)
			idx, differ := 0, false
			for a := 0; a < k; a++ {
				for b := 0; b < k; b++ {
					if a == b {
						continue
					}
					wantName := fmt.Sprintf("s%d and s%d", a, b)
					if ands[idx].Name() != wantName {
						o.Failf("AllAndStrategies: entry %d is named %q, the pair in product order is %q", idx, ands[idx].Name(), wantName)
						return o
					}
					pair := Expr{Op: "and", Kids: []Expr{{Op: "leaf", Leaf: a}, {Op: "leaf", Leaf: b}}}
					got, msg := run(ands[idx], sn, 0)
					if want := pair.model(words, c.Closes, 0); msg != "" || !eq(got, want) {
						o.Failf("AllAndStrategies entry %q over %v = %v %s, And of the two gives %v", wantName, c.Words, got, msg, want)
						return o
					}
					pair.Op = "split"
					got, msg = run(splits[idx], sn, 0)
					want := pair.model(words, c.Closes, 0)
					if msg != "" || !eq(got, want) {
						o.Failf("AllSplitStrategies entry %d (%s) over %v = %v %s, Split(buy = s%d, sell = s%d) gives %v", idx, splits[idx].Name(), c.Words, got, msg, a, b, want)
						return o
					}
					rev := Expr{Op: "split", Kids: []Expr{{Op: "leaf", Leaf: b}, {Op: "leaf", Leaf: a}}}
					if !eq(want, rev.model(words, c.Closes, 0)) {
						differ = true
					}
					idx++
				}
			}
			o.NonTrivial = k >= 3 && differ
			o.Key = fmt.Sprint(c.Words)
			return o
		}}
}

// ---- MACD-RSI: concrete sub-strategies, combined by the harness from their own streams ----

type macdRsiCase struct {
	Bars   gen.Bars `json:"bars"`
	BuyAt  float64  `json:"buy_at"`
	SellAt float64  `json:"sell_at"`
	// Replace: the instance has computed once before its exported MacdStrategy / RsiStrategy
	// fields are pointed at new objects (1: the RSI strategy, 2: the MACD strategy, 3: both)
	Replace int `json:"replace,omitempty"`
	RsiP    int `json:"rsi_p,omitempty"`
	MacdP   int `json:"macd_p,omitempty"`
}

func macdRsiProp() engine.AnyProp {
	return engine.Prop[macdRsiCase]{ID: "C07", Subject: "MacdRsi",
		Gen: func(t *rapid.T) macdRsiCase {
			n := rapid.IntRange(0, 120).Draw(t, "n")
			return macdRsiCase{Bars: gen.GenBarsOf(t, n, rapid.SampledFrom([]string{"walk", "spikes", "sawtooth"}).Draw(t, "class")),
				BuyAt: float64(rapid.IntRange(20, 50).Draw(t, "buy")), SellAt: float64(rapid.IntRange(50, 80).Draw(t, "sell")),
				Replace: rapid.SampledFrom([]int{0, 0, 1, 2, 3}).Draw(t, "replace"), RsiP: rapid.IntRange(2, 9).Draw(t, "rsi_p"), MacdP: rapid.IntRange(2, 6).Draw(t, "macd_p")}
		},
		Check: func(c macdRsiCase) engine.Outcome {
			var o engine.Outcome
			sn := stub.Snapshots(c.Bars)
			m := compound.NewMacdRsiStrategyWith(c.BuyAt, c.SellAt)
			if c.Replace != 0 {
				// use the instance once, then point its exported fields at new sub-strategies: the
				// compound wraps what its fields hold NOW
				if _, msg := run(m, stub.SnapshotsFromCloses([]float64{10, 11, 12, 11, 10, 9, 10, 11, 12, 13}), 0); msg != "" {
					o.Failf("MacdRsi first use: %s", msg)
					return o
				}
				if c.Replace&1 != 0 {
					r := smomentum.NewRsiStrategyWith(c.BuyAt+5, c.SellAt-5)
					r.Rsi = momentum.NewRsiWithPeriod[float64](c.RsiP)
					m.RsiStrategy = r
				}
				if c.Replace&2 != 0 {
					m.MacdStrategy = strend.NewMacdStrategyWith(c.MacdP, c.MacdP+3, 2)
				}
				o.Class("sub_strategy_replaced_after_first_use")
			}
			got, msg := run(m, sn, 0)
			if msg != "" {
				o.Failf("MacdRsi: %s", msg)
				return o
			}
			a, msg1 := run(m.MacdStrategy, sn, 0)
			b, msg2 := run(m.RsiStrategy, sn, 0)
			if msg1 != "" || msg2 != "" {
				o.Failf("sub-strategies: %s %s", msg1, msg2)
				return o
			}
			da, db := stub.Denormalize(a), stub.Denormalize(b)
			nn := len(da)
			if len(db) < nn {
				nn = len(db)
			}
			want := make([]strategy.Action, nn)
			agree := 0
			for i := range want {
				if da[i] == db[i] {
					want[i] = da[i]
					if da[i] != H {
						agree++
					}
				}
			}
			if !eq(got, want) {
				o.Failf("MacdRsi(%v,%v) = %v, standing MACD %v and RSI %v recommendations agree on %v", c.BuyAt, c.SellAt, got, da, db, want)
				return o
			}
			o.NonTrivial = agree > 0
			o.Add("macd_rsi_agreeing_positions", agree)
			o.Key = fmt.Sprint(c.Bars.Close, c.BuyAt, c.SellAt)
			return o
		}}
}

func props() []engine.AnyProp {
	return []engine.AnyProp{engine.Prop[Case]{ID: "C07", Subject: "Combinators+Decorators", Gen: genCase, Check: check}, exprProp(), pairsProp(), macdRsiProp()}
}

func TestC07(t *testing.T) { engine.RunAll(t, props(), false) }

func TestReplay(t *testing.T) { engine.Replay(t, "C07", props()) }
