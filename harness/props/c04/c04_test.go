// Package c04: no look-ahead - output i depends only on inputs up to i.
package c04

import (
	"fmt"
	"math"
	"testing"

	"github.com/cinar/indicator/v2/strategy"
	"pgregory.net/rapid"
	"verif/harness/engine"
	"verif/harness/gen"
	"verif/harness/pipe"
	"verif/harness/reg"
	"verif/harness/sreg"
	"verif/harness/stub"
)

func TestMain(m *testing.M) { engine.Main(m) }

func same(a, b float64) bool {
	return math.Float64bits(a) == math.Float64bits(b) || (a != a && b != b)
}

// concat returns a[0:m] followed by b.
func concat(a gen.Bars, m int, b gen.Bars) gen.Bars {
	j := func(x, y []float64) []float64 { return append(append([]float64{}, x[:m]...), y...) }
	return gen.Bars{Class: a.Class, Open: j(a.Open, b.Open), High: j(a.High, b.High), Low: j(a.Low, b.Low), Close: j(a.Close, b.Close), Volume: j(a.Volume, b.Volume), X: j(a.X, b.X), Y: j(a.Y, b.Y)}
}

// runner executes a subject on bars and returns its outputs and the offset w such that output k
// refers to input position k+w.
type runner func(b gen.Bars) (outs [][]float64, w int, fail string)

// lookAhead checks the two relations of the statement; it returns a violation message or "".
func lookAhead(name string, run runner, full gen.Bars, m int, suffix gen.Bars) (string, int) {
	outFull, w, fail := run(full)
	if fail != "" {
		return fail, 0
	}
	compared := 0
	check := func(label string, bars gen.Bars) string {
		outs, w2, fail := run(bars)
		if fail != "" {
			return fail
		}
		if w2 != w || len(outs) != len(outFull) {
			return fmt.Sprintf("%s: shape changed between runs", name)
		}
		for j := range outs {
			for k := 0; k+w < m && k < len(outs[j]); k++ {
				if k >= len(outFull[j]) {
					return fmt.Sprintf("%s: run on %s has value #%d of output %d (position %d < cut %d) that the run on the whole series does not have", name, label, k, j, k+w, m)
				}
				compared++
				if !same(outs[j][k], outFull[j][k]) {
					return fmt.Sprintf("%s: output %d value #%d (input position %d < cut %d) is %v on %s but %v on the whole series: it depends on later inputs", name, j, k, k+w, m, outs[j][k], label, outFull[j][k])
				}
			}
			// the prefix run must have every value for positions < m that the full run has
			for k := 0; k+w < m && k < len(outFull[j]); k++ {
				if k >= len(outs[j]) {
					return fmt.Sprintf("%s: run on %s lacks value #%d of output %d (position %d < cut %d), which the whole series yields", name, label, k, j, k+w, m)
				}
			}
		}
		return ""
	}
	if msg := check(fmt.Sprintf("the prefix s[0:%d]", m), full.Cut(m)); msg != "" {
		return msg, compared
	}
	if msg := check(fmt.Sprintf("s[0:%d] followed by a different suffix of %d bars", m, suffix.Len()), concat(full, m, suffix)); msg != "" {
		return msg, compared
	}
	return "", compared
}

// IndCase is an indicator case.
type IndCase struct {
	Cfg    reg.Config `json:"cfg"`
	Bars   gen.Bars   `json:"bars"`
	M      int        `json:"m"`
	Suffix gen.Bars   `json:"suffix"`
}

// genBars: "all series" - in 1/8 of the draws a few values are missing (NaN).
func genBars(t *rapid.T, n int) gen.Bars {
	b := gen.GenBars(t, n)
	if rapid.IntRange(0, 7).Draw(t, "with_gaps") == 0 {
		b = gen.WithGaps(t, b)
	}
	return b
}

func genCut(t *rapid.T, n, w int) int {
	if n == 0 {
		return 0
	}
	if rapid.IntRange(0, 4).Draw(t, "cut_class") == 0 {
		return rapid.IntRange(0, n).Draw(t, "m")
	}
	lo := w + 1
	if lo > n {
		lo = n
	}
	return rapid.IntRange(lo, n).Draw(t, "m")
}

func indProp(ind reg.Ind) engine.AnyProp {
	return engine.Prop[IndCase]{
		ID: "C04", Subject: "indicator/" + ind.Name,
		Gen: func(t *rapid.T) IndCase {
			cfg := ind.GenConfig(t, 0)
			w := ind.Idle(cfg)
			n := rapid.IntRange(0, 3*w+20).Draw(t, "n")
			if engine.OncePerRun("C04-long/" + ind.Name) {
				n = 1<<15 + w + 40 // once per run: a cut deep inside a long series
			}
			return IndCase{Cfg: cfg, Bars: genBars(t, n), M: genCut(t, n, w), Suffix: genBars(t, rapid.IntRange(0, w+12).Draw(t, "ns"))}
		},
		Check: func(c IndCase) engine.Outcome {
			var o engine.Outcome
			run := func(b gen.Bars) ([][]float64, int, string) {
				res, w := ind.Run(c.Cfg, b, pipe.Opts{})
				if !res.OK() {
					return nil, 0, fmt.Sprintf("%s %v n=%d: %s: %s", ind.Name, c.Cfg, b.Len(), res.Verdict, res.Detail)
				}
				return res.Outs, w, ""
			}
			msg, compared := lookAhead(fmt.Sprintf("%s %v", ind.Name, c.Cfg), run, c.Bars, c.M, c.Suffix)
			if msg != "" {
				o.Failf("%s", msg)
				return o
			}
			w := ind.Idle(c.Cfg)
			o.NonTrivial = w < c.M && c.M < c.Bars.Len() && compared > 0
			o.Add("values_compared", compared)
			o.Key = fmt.Sprint(c.Cfg, c.M, c.Bars.Len(), c.Bars.Close, c.Bars.X, c.Suffix.Len())
			return o
		},
	}
}

// StratCase is a strategy case (base, decorated or compound expression).
type StratCase struct {
	Tree   sreg.Tree `json:"tree"`
	Bars   gen.Bars  `json:"bars"`
	M      int       `json:"m"`
	Suffix gen.Bars  `json:"suffix"`
}

func stratCheck(c StratCase) engine.Outcome {
	var o engine.Outcome
	run := func(b gen.Bars) ([][]float64, int, string) {
		res := sreg.RunStrategy(c.Tree.Build(), stub.Snapshots(b), pipe.Opts{})
		if res.Verdict == "deadlock" {
			return nil, 0, fmt.Sprintf("%s n=%d: %s: %s", c.Tree, b.Len(), res.Verdict, res.Detail)
		}
		out := make([]float64, len(res.Outs[0]))
		for i, a := range res.Outs[0] {
			out[i] = float64(a)
		}
		// only the first n actions are recommendations for snapshots
		if len(out) > b.Len() {
			out = out[:b.Len()]
		}
		return [][]float64{out}, 0, ""
	}
	msg, compared := lookAhead(c.Tree.String(), run, c.Bars, c.M, c.Suffix)
	if msg != "" {
		o.Failf("%s", msg)
		return o
	}
	w := c.Tree.MaxWarm()
	nonHold := 0
	if outs, _, _ := run(c.Bars.Cut(c.M)); len(outs) > 0 {
		for _, a := range outs[0] {
			if strategy.Action(a) != strategy.Hold {
				nonHold++
			}
		}
	}
	o.NonTrivial = w < c.M && c.M < c.Bars.Len() && nonHold > 0
	o.Add("actions_compared", compared)
	o.Key = fmt.Sprint(c.Tree, c.M, c.Bars.Len(), c.Bars.Close, c.Suffix.Len())
	return o
}

func baseStratProp(st sreg.Strat) engine.AnyProp {
	return engine.Prop[StratCase]{
		ID: "C04", Subject: "strategy/" + st.Name,
		Gen: func(t *rapid.T) StratCase {
			tr := sreg.Tree{Op: "leaf", Leaf: st.Name, Cfg: st.GenConfig(t)}
			w := tr.Warm()
			n := rapid.IntRange(0, 3*w+20).Draw(t, "n")
			if engine.OncePerRun("C04-long/strategy/" + st.Name) {
				n = 1<<15 + w + 40
			}
			return StratCase{Tree: tr, Bars: genBars(t, n), M: genCut(t, n, w), Suffix: genBars(t, rapid.IntRange(0, w+12).Draw(t, "ns"))}
		},
		Check: stratCheck,
	}
}

func treeProp() engine.AnyProp {
	names := sreg.OnTimeNames()
	return engine.Prop[StratCase]{
		ID: "C04", Subject: "strategy/decorated+compound",
		Gen: func(t *rapid.T) StratCase {
			tr := sreg.GenTree(t, names, 2)
			if tr.Op == "leaf" {
				tr = sreg.Tree{Op: rapid.SampledFrom([]string{"inverse", "noloss", "stoploss"}).Draw(t, "wrap"), Pct: 0.0625, Kids: []sreg.Tree{tr}}
			}
			w := tr.MaxWarm()
			n := rapid.IntRange(0, 2*w+25).Draw(t, "n")
			return StratCase{Tree: tr, Bars: genBars(t, n), M: genCut(t, n, w), Suffix: genBars(t, rapid.IntRange(0, w+12).Draw(t, "ns"))}
		},
		Check: stratCheck,
	}
}

func props() []engine.AnyProp {
	var ps []engine.AnyProp
	for _, ind := range reg.All() {
		ps = append(ps, indProp(ind))
	}
	for _, st := range sreg.Base() {
		ps = append(ps, baseStratProp(st))
	}
	for _, st := range sreg.Extra() {
		if st.TerminationOnly {
			continue
		}
		ps = append(ps, baseStratProp(st))
	}
	return append(ps, treeProp())
}

func TestC04(t *testing.T) { engine.RunAll(t, props(), false) }

func TestReplay(t *testing.T) { engine.Replay(t, "C04", props()) }
