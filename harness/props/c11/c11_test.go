// Package c11: CSV and JSON codecs round-trip every supported value; header-name mapping; write
// replaces, append appends.
package c11

import (
	"bytes"
	"encoding/csv"
	"encoding/json"
	"fmt"
	"math"
	"os"
	"path/filepath"
	"reflect"
	"strings"
	"sync"
	"testing"
	"time"
	"unicode/utf8"

	"github.com/cinar/indicator/v2/asset"
	"github.com/cinar/indicator/v2/helper"
	"pgregory.net/rapid"
	"verif/harness/engine"
	"verif/harness/pipe"
)

func TestMain(m *testing.M) { engine.Main(m) }

// ---- row shapes covering every kind reflect.go handles ----

type RowA struct {
	S   string
	B   bool
	I8  int8
	I16 int16
	I32 int32
	I64 int64
	I   int
}

type RowB struct {
	U8  uint8
	U16 uint16
	U32 uint32
	U64 uint64
	U   uint
	F32 F32
	F64 F64
}

// F64 / F32 are float kinds (the codec goes by reflect.Kind) that survive the JSON of replay files
// even when NaN or infinite.
type F64 float64
type F32 float32

func (f F64) MarshalJSON() ([]byte, error) {
	return []byte(fmt.Sprintf("\"%016x\"", math.Float64bits(float64(f)))), nil
}
func (f *F64) UnmarshalJSON(b []byte) error {
	var u uint64
	_, err := fmt.Sscanf(strings.Trim(string(b), "\""), "%x", &u)
	*f = F64(math.Float64frombits(u))
	return err
}
func (f F32) MarshalJSON() ([]byte, error) {
	return []byte(fmt.Sprintf("\"%08x\"", math.Float32bits(float32(f)))), nil
}
func (f *F32) UnmarshalJSON(b []byte) error {
	var u uint32
	_, err := fmt.Sscanf(strings.Trim(string(b), "\""), "%x", &u)
	*f = F32(math.Float32frombits(u))
	return err
}

type RowC struct {
	When time.Time
	Day  time.Time `format:"2006-01-02"`
	Name string    `header:"the name, \"quoted\""`
	V    F64       `header:"v"`
	Note string
}

type RowD struct {
	Only string
}

// RowE: several date columns, each in its own declared format; month-first and day-first render
// different dates as the same text, so a column must be read in ITS format.
type RowE struct {
	US      time.Time `format:"01/02/2006"`
	EU      time.Time `format:"02/01/2006"`
	Compact time.Time `format:"20060102"`
	Minute  time.Time `format:"2006-01-02 15:04"`
	Plain   time.Time
}

// ---- generators ----

var alphabet = []rune{'a', 'b', 'Z', '0', ',', ',', '"', '"', '\n', '\r', ' ', ' ', '\t', ';', '\'', '\\', '.', 'é', '漢', ' ', '#', '=', '-'}

// tokens are texts that LOOK like the output of an escaping layer (JSON, HTML, CSV, Go): a codec
// that post-processes its encoded bytes textually trips over them.
var tokens = []string{`\u0026`, `\u003c`, `\u003e`, `\u0022`, `\n`, `\"`, `\\`, `&`, `<`, `>`, `&amp;`, `""`, `\u`, "\u2028", "\x00", "</script>", "null", "NaN"}

func genString(t *rapid.T, label string) (string, bool) {
	n := rapid.IntRange(0, 8).Draw(t, label+"_len")
	var sb strings.Builder
	for i := 0; i < n; i++ {
		if rapid.IntRange(0, 7).Draw(t, label+"_tok") == 0 {
			sb.WriteString(rapid.SampledFrom(tokens).Draw(t, label+"_t"))
			continue
		}
		sb.WriteRune(rapid.SampledFrom(alphabet).Draw(t, label))
	}
	s := sb.String()
	// a CR LF inside a field is read back as LF by encoding/csv itself: recorded single-input
	// finding, excluded by construction (and counted)
	excluded := false
	for strings.Contains(s, "\r\n") {
		s = strings.Replace(s, "\r\n", "\r \n", 1)
		excluded = true
	}
	return s, excluded
}

func genInt(t *rapid.T, label string, bits int) int64 {
	lo, hi := int64(-1)<<(bits-1), int64(1)<<(bits-1)-1
	switch rapid.IntRange(0, 3).Draw(t, label+"_class") {
	case 0:
		return rapid.SampledFrom([]int64{lo, lo + 1, -1, 0, 1, hi - 1, hi}).Draw(t, label)
	default:
		return rapid.Int64Range(lo, hi).Draw(t, label)
	}
}

func genUint(t *rapid.T, label string, bits int) uint64 {
	hi := uint64(math.MaxUint64)
	if bits < 64 {
		hi = uint64(1)<<bits - 1
	}
	if rapid.IntRange(0, 3).Draw(t, label+"_class") == 0 {
		return rapid.SampledFrom([]uint64{0, 1, hi - 1, hi}).Draw(t, label)
	}
	return rapid.Uint64Range(0, hi).Draw(t, label)
}

func genF64(t *rapid.T, label string) float64 {
	switch rapid.IntRange(0, 4).Draw(t, label+"_class") {
	case 0:
		return rapid.SampledFrom([]float64{0, math.Copysign(0, -1), math.Inf(1), math.Inf(-1), math.NaN(), math.MaxFloat64, math.SmallestNonzeroFloat64, 0.1, 1.0000000000000002, 123456789.12345678, 5e-324, 2.2250738585072014e-308}).Draw(t, label)
	case 1:
		return float64(rapid.IntRange(-100000, 100000).Draw(t, label)) / 100
	}
	return math.Float64frombits(rapid.Uint64().Draw(t, label))
}

func genF32(t *rapid.T, label string) float32 {
	if rapid.IntRange(0, 3).Draw(t, label+"_class") == 0 {
		return rapid.SampledFrom([]float32{0, float32(math.Copysign(0, -1)), float32(math.Inf(1)), float32(math.NaN()), math.MaxFloat32, math.SmallestNonzeroFloat32, 0.1, 16777217}).Draw(t, label)
	}
	return math.Float32frombits(rapid.Uint32().Draw(t, label))
}

func genTime(t *rapid.T, label string, dayOnly bool) time.Time {
	sec := rapid.Int64Range(0, 7258118400).Draw(t, label) // 1970 .. 2200
	tm := time.Unix(sec, 0).UTC()
	if dayOnly {
		tm = time.Date(tm.Year(), tm.Month(), tm.Day(), 0, 0, 0, 0, time.UTC)
	}
	return tm
}

// ---- equality that treats floats bitwise (any NaN equals any NaN) and times by instant ----

func equalValue(a, b reflect.Value) bool {
	switch a.Kind() {
	case reflect.Float32, reflect.Float64:
		x, y := a.Float(), b.Float()
		if x != x || y != y {
			return x != x && y != y
		}
		return math.Float64bits(x) == math.Float64bits(y)
	case reflect.Struct:
		if ta, ok := a.Interface().(time.Time); ok {
			return ta.Equal(b.Interface().(time.Time))
		}
		for i := 0; i < a.NumField(); i++ {
			if !equalValue(a.Field(i), b.Field(i)) {
				return false
			}
		}
		return true
	case reflect.Ptr:
		return equalValue(a.Elem(), b.Elem())
	}
	return reflect.DeepEqual(a.Interface(), b.Interface())
}

func equalRows[T any](got []*T, want []T) string {
	if len(got) != len(want) {
		return fmt.Sprintf("read back %d rows, wrote %d", len(got), len(want))
	}
	for i := range want {
		if got[i] == nil || !equalValue(reflect.ValueOf(*got[i]), reflect.ValueOf(want[i])) {
			return fmt.Sprintf("row %d read back as %+v, written as %+v", i, deref(got[i]), want[i])
		}
	}
	return ""
}

func deref[T any](p *T) any {
	if p == nil {
		return nil
	}
	return *p
}

// ---- the generic CSV case ----

// Call is one file operation: write / append / appendorwrite with the rows Rows[From:To].
type Call struct {
	K    string `json:"k"`
	From int    `json:"from"`
	To   int    `json:"to"`
}

// Case holds rows of one shape plus the column shuffle and the file history.
type Case[T any] struct {
	Rows    []T    `json:"rows"`
	Perm    []int  `json:"perm"`  // permutation of the header columns
	Extra   int    `json:"extra"` // foreign columns inserted
	Calls   []Call `json:"calls"`
	Exclude int    `json:"excluded_crlf_draws"`
}

func ptrs[T any](rows []T) []*T {
	out := make([]*T, len(rows))
	for i := range rows {
		r := rows[i]
		out[i] = &r
	}
	return out
}

func needsQuoting(v reflect.Value) bool {
	for i := 0; i < v.NumField(); i++ {
		if v.Field(i).Kind() == reflect.String && strings.ContainsAny(v.Field(i).String(), ",\"\n\r") {
			return true
		}
		if k := v.Field(i).Kind(); k == reflect.Float64 {
			if s := fmt.Sprint(v.Field(i).Float()); len(s) >= 17 {
				return true
			}
		}
	}
	return false
}

func csvProp[T any](name string, genRow func(t *rapid.T, excluded *int) T) engine.AnyProp {
	ncol := reflect.TypeOf((*T)(nil)).Elem().NumField()
	return engine.Prop[Case[T]]{
		ID: "C11", Subject: "csv/" + name,
		Gen: func(t *rapid.T) Case[T] {
			c := Case[T]{}
			n := rapid.IntRange(0, 8).Draw(t, "rows")
			for i := 0; i < n; i++ {
				c.Rows = append(c.Rows, genRow(t, &c.Exclude))
			}
			c.Perm = rapid.Permutation(seq(ncol)).Draw(t, "perm")
			c.Extra = rapid.IntRange(0, 2).Draw(t, "extra")
			k := rapid.IntRange(1, 5).Draw(t, "calls")
			for i := 0; i < k; i++ {
				a, b := rapid.IntRange(0, n).Draw(t, "from"), rapid.IntRange(0, n).Draw(t, "to")
				if a > b {
					a, b = b, a
				}
				c.Calls = append(c.Calls, Call{K: rapid.SampledFrom([]string{"write", "write", "append", "appendorwrite", "appendorwrite", "appendorwrite", "empty"}).Draw(t, "call"), From: a, To: b})
			}
			return c
		},
		Check: func(c Case[T]) engine.Outcome {
			var o engine.Outcome
			o.Add("draws_excluded_because_of_CRLF_finding", c.Exclude)
			codec, err := helper.NewCsv[T](true)
			if err != nil {
				o.Failf("%s: NewCsv: %v", name, err)
				return o
			}
			// 1. in-memory round trip through a shuffled header with foreign columns
			var buf bytes.Buffer
			dir, err := os.MkdirTemp("", "verif-c11-")
			if err != nil {
				o.Failf("harness: %v", err)
				return o
			}
			defer os.RemoveAll(dir)
			path := filepath.Join(dir, "rows.csv")
			if err := codec.WriteToFile(path, helper.SliceToChan(ptrs(c.Rows))); err != nil {
				o.Failf("%s: WriteToFile: %v", name, err)
				return o
			}
			text, _ := os.ReadFile(path)
			recs, err := csv.NewReader(bytes.NewReader(text)).ReadAll()
			if err != nil {
				o.Failf("%s: the written file is not valid CSV: %v\n%s", name, err, text)
				return o
			}
			// dates are written in the declared format
			st := reflect.TypeOf((*T)(nil)).Elem()
			for fi := 0; fi < st.NumField(); fi++ {
				if st.Field(fi).Type.String() != "time.Time" {
					continue
				}
				layout, ok := st.Field(fi).Tag.Lookup("format")
				if !ok {
					layout = helper.DefaultDateTimeFormat
				}
				for ri := range c.Rows {
					want := reflect.ValueOf(c.Rows[ri]).Field(fi).Interface().(time.Time).Format(layout)
					if ri+1 < len(recs) && recs[ri+1][fi] != want {
						o.Failf("%s: field %s of row %d is written as %q, its declared format %q gives %q", name, st.Field(fi).Name, ri, recs[ri+1][fi], layout, want)
						return o
					}
				}
			}
			w := csv.NewWriter(&buf)
			for ri, rec := range recs {
				out := make([]string, 0, len(rec)+c.Extra)
				for _, j := range c.Perm {
					out = append(out, rec[j])
				}
				for e := 0; e < c.Extra; e++ {
					pos := (e*3 + 1) % (len(out) + 1)
					cell := fmt.Sprintf("x%d", ri)
					if ri == 0 {
						cell = fmt.Sprintf("foreign column %d", e)
					}
					out = append(out[:pos], append([]string{cell}, out[pos:]...)...)
				}
				_ = w.Write(out)
			}
			w.Flush()
			back := helper.ChanToSlice(codec2[T]().ReadFromReader(bytes.NewReader(buf.Bytes())))
			if msg := equalRows(back, c.Rows); msg != "" {
				o.Failf("%s: after permuting the columns by %v and inserting %d foreign column(s): %s\nfile:\n%s", name, c.Perm, c.Extra, msg, buf.String())
				return o
			}
			// 1b. the same codec instance, after having read that shuffled file, writes rows that read back identically
			reused := codec2[T]()
			_ = helper.ChanToSlice(reused.ReadFromReader(bytes.NewReader(buf.Bytes())))
			rpath := filepath.Join(dir, "reused.csv")
			if err := reused.WriteToFile(rpath, helper.SliceToChan(ptrs(c.Rows))); err != nil {
				o.Failf("%s: WriteToFile with a codec that has read a file with columns permuted by %v: %v", name, c.Perm, err)
				return o
			}
			if ch, err := helper.ReadFromCsvFile[T](rpath, true); err != nil {
				o.Failf("%s: ReadFromCsvFile: %v", name, err)
				return o
			} else if msg := equalRows(helper.ChanToSlice(ch), c.Rows); msg != "" {
				content, _ := os.ReadFile(rpath)
				o.Failf("%s: rows written by a codec instance that had first read a file with columns permuted by %v (+%d foreign): %s\nfile:\n%s", name, c.Perm, c.Extra, msg, content)
				return o
			}
			// 2. file history against a list model
			_ = os.Remove(path)
			var model []T
			exists := false
			shorter := false
			for i, call := range c.Calls {
				rows := c.Rows[call.From:call.To]
				before := len(model)
				switch call.K {
				case "write":
					err = codec2[T]().WriteToFile(path, helper.SliceToChan(ptrs(rows)))
					model = append([]T{}, rows...)
					if exists && len(rows) < before {
						shorter = true
					}
					exists = true
				case "append":
					if !exists {
						continue // appending to a missing file is outside the statement
					}
					err = codec2[T]().AppendToFile(path, helper.SliceToChan(ptrs(rows)))
					model = append(model, rows...)
				case "empty":
					// somebody left an empty file behind (touch): the next append-or-write must start it properly
					err = os.WriteFile(path, nil, 0o600)
					model = nil
					exists = false
					if err == nil {
						continue
					}
				case "appendorwrite":
					err = helper.AppendOrWriteToCsvFile(path, true, helper.SliceToChan(ptrs(rows)))
					model = append(model, rows...)
					exists = true
				}
				if err != nil {
					o.Failf("%s: call %d %s(%d rows): %v", name, i, call.K, len(rows), err)
					return o
				}
				ch, err := helper.ReadFromCsvFile[T](path, true)
				if err != nil {
					o.Failf("%s: call %d: ReadFromCsvFile: %v", name, i, err)
					return o
				}
				if msg := equalRows(helper.ChanToSlice(ch), model); msg != "" {
					content, _ := os.ReadFile(path)
					o.Failf("%s: after call %d %s(%d rows) (history %v): %s\nfile:\n%s", name, i, call.K, len(rows), c.Calls[:i+1], msg, content)
					return o
				}
			}
			quoting := false
			for i := range c.Rows {
				if needsQuoting(reflect.ValueOf(c.Rows[i])) {
					quoting = true
				}
			}
			o.NonTrivial = quoting && (shorter || len(c.Rows) > 0)
			if shorter {
				o.Class("shorter_rewrite")
			}
			if quoting {
				o.Class("needs_quoting_or_17_digit_float")
			}
			o.Key = fmt.Sprintf("%+v", c)
			return o
		},
	}
}

func codec2[T any]() *helper.Csv[T] {
	c, _ := helper.NewCsv[T](true)
	return c
}

func seq(n int) []int {
	out := make([]int, n)
	for i := range out {
		out[i] = i
	}
	return out
}

func str(t *rapid.T, label string, excluded *int) string {
	s, ex := genString(t, label)
	if ex {
		*excluded++
	}
	return s
}

// ---- JSON ----

// Rich is a JSON element whose decoding is not a full overwrite of the target: optional fields,
// a slice, a map and a pointer.
type Rich struct {
	Name   string         `json:"name"`
	Note   string         `json:"note,omitempty"`
	Splits []float64      `json:"splits,omitempty"`
	Tags   map[string]int `json:"tags,omitempty"`
	Lot    *int           `json:"lot,omitempty"`
}

type jsonCase struct {
	Rich    []Rich           `json:"rich"`
	Maps    []map[string]int `json:"maps"`
	Ints    []int64          `json:"ints"`
	Floats  []float64        `json:"floats"`
	Strings []string         `json:"strings"`
	Snaps   []asset.Snapshot `json:"snaps"`
	// Eods: the library's own JSON-tagged record (volumes are int64: extreme integers)
	Eods []asset.TiingoEndOfDay `json:"eods"`
}

func roundTripJSON[T any](xs []T) ([]T, error) {
	var buf bytes.Buffer
	if err := helper.ChanToJSON(helper.SliceToChan(xs), &buf); err != nil {
		return nil, err
	}
	return helper.ChanToSlice(helper.JSONToChan[T](&buf)), nil
}

func richJSON(r Rich) string {
	b, _ := json.Marshal(r)
	return string(b)
}

// richRoundTrip streams the elements out and back and compares each one at the moment it is
// received (and again at the end).
func richRoundTrip(xs []Rich) string {
	var buf bytes.Buffer
	if err := helper.ChanToJSON(helper.SliceToChan(xs), &buf); err != nil {
		return "ChanToJSON: " + err.Error()
	}
	var got []Rich
	i := 0
	for r := range helper.JSONToChan[Rich](&buf) {
		if i >= len(xs) {
			return fmt.Sprintf("JSON: more elements came back than were written (%d)", len(xs))
		}
		if richJSON(r) != richJSON(xs[i]) {
			return fmt.Sprintf("JSON element %d %s came back as %s (stream %s)", i, richJSON(xs[i]), richJSON(r), richJSON2(xs))
		}
		got = append(got, r)
		i++
	}
	if len(got) != len(xs) {
		return fmt.Sprintf("JSON: %d elements came back of %d", len(got), len(xs))
	}
	for i := range got {
		if richJSON(got[i]) != richJSON(xs[i]) {
			return fmt.Sprintf("JSON element %d %s was changed to %s after it had been delivered", i, richJSON(xs[i]), richJSON(got[i]))
		}
	}
	return ""
}

func richJSON2(xs []Rich) string {
	b, _ := json.Marshal(xs)
	return string(b)
}

func jsonProp() engine.AnyProp {
	return engine.Prop[jsonCase]{
		ID: "C11", Subject: "json",
		Gen: func(t *rapid.T) jsonCase {
			c := jsonCase{}
			for i, n := 0, rapid.IntRange(0, 5).Draw(t, "nr"); i < n; i++ {
				r := Rich{Name: rapid.SampledFrom([]string{"AAA", "BBB", ""}).Draw(t, "rn")}
				if rapid.Bool().Draw(t, "hasnote") {
					r.Note = rapid.SampledFrom([]string{"halted", "x"}).Draw(t, "note")
				}
				for j, m := 0, rapid.IntRange(0, 3).Draw(t, "nsplit"); j < m; j++ {
					r.Splits = append(r.Splits, float64(rapid.IntRange(1, 9).Draw(t, "split")))
				}
				for j, m := 0, rapid.IntRange(0, 2).Draw(t, "ntag"); j < m; j++ {
					if r.Tags == nil {
						r.Tags = map[string]int{}
					}
					r.Tags[rapid.SampledFrom([]string{"a", "b", "c"}).Draw(t, "tag")] = rapid.IntRange(0, 5).Draw(t, "tagv")
				}
				if rapid.Bool().Draw(t, "haslot") {
					v := rapid.IntRange(0, 100).Draw(t, "lot")
					r.Lot = &v
				}
				c.Rich = append(c.Rich, r)
			}
			for i, n := 0, rapid.IntRange(0, 4).Draw(t, "nm"); i < n; i++ {
				m := map[string]int{}
				for j, k := 0, rapid.IntRange(0, 3).Draw(t, "mk"); j < k; j++ {
					m[rapid.SampledFrom([]string{"a", "b", "c", "d"}).Draw(t, "key")] = rapid.IntRange(0, 9).Draw(t, "val")
				}
				c.Maps = append(c.Maps, m)
			}
			for i, n := 0, rapid.IntRange(0, 6).Draw(t, "ni"); i < n; i++ {
				c.Ints = append(c.Ints, genInt(t, "i", 64))
			}
			for i, n := 0, rapid.IntRange(0, 6).Draw(t, "nf"); i < n; i++ {
				f := genF64(t, "f")
				if math.IsNaN(f) || math.IsInf(f, 0) {
					f = 0.5 // JSON has no NaN/Inf: "finite floats"
				}
				c.Floats = append(c.Floats, f)
			}
			for i, n := 0, rapid.IntRange(0, 6).Draw(t, "ns"); i < n; i++ {
				s, _ := genString(t, "s")
				if !utf8.ValidString(s) {
					s = "x"
				}
				c.Strings = append(c.Strings, s)
			}
			for i, n := 0, rapid.IntRange(0, 4).Draw(t, "nsn"); i < n; i++ {
				fin := func(l string) float64 {
					f := genF64(t, l)
					if math.IsNaN(f) || math.IsInf(f, 0) {
						return 1.25
					}
					return f
				}
				d := genTime(t, "d", rapid.Bool().Draw(t, "dayonly"))
				if rapid.IntRange(0, 2).Draw(t, "subsecond") == 1 {
					// a tick timestamp: milliseconds or nanoseconds
					d = d.Add(time.Duration(rapid.SampledFrom([]int64{1, 999, 123000000, 123456789, 999999999}).Draw(t, "ns")))
				}
				if rapid.Bool().Draw(t, "eod") {
					c.Eods = append(c.Eods, asset.TiingoEndOfDay{Date: d, Open: fin("eo"), Close: fin("ec"), AdjClose: fin("eac"),
						Volume: genInt(t, "evol", 64), AdjVolume: genInt(t, "eadjvol", 64), Split: fin("esplit")})
				}
				c.Snaps = append(c.Snaps, asset.Snapshot{Date: d, Open: fin("o"), High: fin("h"), Low: fin("l"), Close: fin("c"), Volume: fin("v")})
			}
			return c
		},
		Check: func(c jsonCase) engine.Outcome {
			var o engine.Outcome
			// elements are compared as they come off the channel: a later element must not reach
			// back into one already delivered
			if msg := richRoundTrip(c.Rich); msg != "" {
				o.Failf("%s", msg)
				return o
			}
			gm, err := roundTripJSON(c.Maps)
			if err != nil || len(gm) != len(c.Maps) {
				o.Failf("JSON maps: %d came back of %d (%v)", len(gm), len(c.Maps), err)
				return o
			}
			for i := range gm {
				if len(gm[i]) != len(c.Maps[i]) {
					o.Failf("JSON map %d %v came back as %v", i, c.Maps[i], gm[i])
					return o
				}
				for k, v := range c.Maps[i] {
					if gm[i][k] != v {
						o.Failf("JSON map %d %v came back as %v", i, c.Maps[i], gm[i])
						return o
					}
				}
			}
			gi, err := roundTripJSON(c.Ints)
			if err != nil || !reflect.DeepEqual(gi, c.Ints) && !(len(gi) == 0 && len(c.Ints) == 0) {
				o.Failf("JSON ints %v came back as %v (%v)", c.Ints, gi, err)
				return o
			}
			gf, err := roundTripJSON(c.Floats)
			if err != nil || len(gf) != len(c.Floats) {
				o.Failf("JSON floats %v came back as %v (%v)", c.Floats, gf, err)
				return o
			}
			for i := range gf {
				if math.Float64bits(gf[i]) != math.Float64bits(c.Floats[i]) && !(gf[i] == 0 && c.Floats[i] == 0) {
					o.Failf("JSON float %v came back as %v", c.Floats[i], gf[i])
					return o
				}
			}
			gs, err := roundTripJSON(c.Strings)
			if err != nil || !reflect.DeepEqual(gs, c.Strings) && !(len(gs) == 0 && len(c.Strings) == 0) {
				o.Failf("JSON strings %q came back as %q (%v)", c.Strings, gs, err)
				return o
			}
			ge, err := roundTripJSON(c.Eods)
			if err != nil || len(ge) != len(c.Eods) {
				o.Failf("JSON TiingoEndOfDay records: %d came back of %d (%v)", len(ge), len(c.Eods), err)
				return o
			}
			for i := range ge {
				if !equalValue(reflect.ValueOf(ge[i]), reflect.ValueOf(c.Eods[i])) {
					o.Failf("JSON TiingoEndOfDay %+v came back as %+v", c.Eods[i], ge[i])
					return o
				}
			}
			gn, err := roundTripJSON(c.Snaps)
			if err != nil || len(gn) != len(c.Snaps) {
				o.Failf("JSON snapshots: %d came back of %d (%v)", len(gn), len(c.Snaps), err)
				return o
			}
			for i := range gn {
				if !equalValue(reflect.ValueOf(gn[i]), reflect.ValueOf(c.Snaps[i])) {
					o.Failf("JSON snapshot %+v came back as %+v", c.Snaps[i], gn[i])
					return o
				}
			}
			o.NonTrivial = len(c.Ints)+len(c.Floats)+len(c.Strings)+len(c.Snaps) >= 3
			o.Key = fmt.Sprintf("%+v", c)
			return o
		},
	}
}

// ---- witnesses of the two recorded encoding/csv losses (re-confirmed every run) ----

type witnessCase struct {
	W int `json:"w"`
}

const crlfKey = "encoding-csv/CRLF-inside-a-field-reads-back-as-LF"
const loneEmptyKey = "encoding-csv/single-column-row-holding-the-empty-string-is-dropped"

func witnessProp() engine.AnyProp {
	return engine.Prop[witnessCase]{
		ID: "C11", Subject: "csv/known-loss-witnesses",
		Gen: func(t *rapid.T) witnessCase { return witnessCase{W: rapid.IntRange(0, 1).Draw(t, "w")} },
		Check: func(c witnessCase) engine.Outcome {
			var o engine.Outcome
			var buf bytes.Buffer
			tmp, err := os.MkdirTemp("", "verif-c11-w-")
			if err != nil {
				o.Failf("harness: %v", err)
				return o
			}
			defer os.RemoveAll(tmp)
			if c.W == 0 {
				rows := []RowC{{Name: "a\r\nb", When: time.Unix(0, 0).UTC(), Day: time.Unix(0, 0).UTC()}}
				cd, _ := helper.NewCsv[RowC](true)
				_ = cd.WriteToFile(filepath.Join(tmp, "w.csv"), helper.SliceToChan(ptrs(rows)))
				text, _ := os.ReadFile(filepath.Join(tmp, "w.csv"))
				_ = os.Remove(filepath.Join(tmp, "w.csv"))
				buf.Write(text)
				back := helper.ChanToSlice(codec2[RowC]().ReadFromReader(&buf))
				if len(back) == 1 && back[0].Name == "a\nb" {
					o.KnownAs(crlfKey)
				} else if len(back) != 1 || back[0].Name != "a\r\nb" {
					o.Failf("CRLF witness behaves in a third way: %+v", back)
				}
			} else {
				rows := []RowD{{Only: "x"}, {Only: ""}, {Only: "y"}}
				path := filepath.Join(tmp, "w2.csv")
				cd, _ := helper.NewCsv[RowD](true)
				_ = cd.WriteToFile(path, helper.SliceToChan(ptrs(rows)))
				ch, err := helper.ReadFromCsvFile[RowD](path, true)
				var back []*RowD
				if err == nil {
					back = helper.ChanToSlice(ch)
				}
				_ = os.Remove(path)
				if len(back) == 2 {
					o.KnownAs(loneEmptyKey)
				} else if msg := equalRows(back, rows); msg != "" {
					o.Failf("lone-empty-field witness behaves in a third way: %s", msg)
				}
			}
			o.NonTrivial = true
			o.Key = fmt.Sprint(c.W)
			return o
		},
	}
}

// slowReaderProp: a consumer that is slow is not a consumer that is gone. One case per run (shard
// 0 only): a file is read row by row with a pause after the first row - 21 s in the quick tier,
// 61 s in the thorough one; the pause is waiting, not a verdict - and every row written must
// still arrive.
var slowOnce sync.Once

func slowReaderProp() engine.AnyProp {
	return engine.Prop[witnessCase]{
		ID: "C11", Subject: "csv/slow-reader",
		Gen: func(t *rapid.T) witnessCase { return witnessCase{W: rapid.IntRange(3, 6).Draw(t, "rows")} },
		Check: func(c witnessCase) engine.Outcome {
			var o engine.Outcome
			o.Key = "skipped"
			if engine.Shard() != 0 {
				return o
			}
			slowOnce.Do(func() {
				o.Key = fmt.Sprint("slow", c.W)
				tmp, err := os.MkdirTemp("", "verif-c11-slow-")
				if err != nil {
					o.Failf("harness: %v", err)
					return
				}
				defer os.RemoveAll(tmp)
				var rows []RowD
				for i := 0; i < c.W; i++ {
					rows = append(rows, RowD{Only: fmt.Sprint("row", i)})
				}
				path := filepath.Join(tmp, "slow.csv")
				cd, _ := helper.NewCsv[RowD](true)
				if err := cd.WriteToFile(path, helper.SliceToChan(ptrs(rows))); err != nil {
					o.Failf("harness: %v", err)
					return
				}
				pause := 21 * time.Second
				if engine.Thorough() {
					pause = 61 * time.Second
				}
				var back []*RowD
				var openErr error
				if verdict, detail := pipe.Call(func() {
					// (opened inside the guarded call: see the note in pipe.Call)
					ch, err := helper.ReadFromCsvFile[RowD](path, true)
					if err != nil {
						openErr = err
						return
					}
					back = append(back, <-ch)
					time.Sleep(pause)
					for r := range ch {
						back = append(back, r)
					}
				}); verdict != "ok" {
					o.Failf("a reader that paused %v after the first row never saw the end of the stream: %s: %s", pause, verdict, detail)
					return
				}
				if openErr != nil {
					o.Failf("ReadFromCsvFile: %v", openErr)
					return
				}
				if msg := equalRows(back, rows); msg != "" {
					o.Failf("a reader that paused %v after the first row: %s", pause, msg)
				}
				o.NonTrivial = true
				o.Add("slow_reads", 1)
			})
			return o
		},
	}
}

func props() []engine.AnyProp {
	return []engine.AnyProp{
		csvProp("RowA(string,bool,ints)", func(t *rapid.T, ex *int) RowA {
			return RowA{S: str(t, "s", ex), B: rapid.Bool().Draw(t, "b"), I8: int8(genInt(t, "i8", 8)), I16: int16(genInt(t, "i16", 16)), I32: int32(genInt(t, "i32", 32)), I64: genInt(t, "i64", 64), I: int(genInt(t, "i", 64))}
		}),
		csvProp("RowB(uints,floats)", func(t *rapid.T, ex *int) RowB {
			return RowB{U8: uint8(genUint(t, "u8", 8)), U16: uint16(genUint(t, "u16", 16)), U32: uint32(genUint(t, "u32", 32)), U64: genUint(t, "u64", 64), U: uint(genUint(t, "u", 64)), F32: F32(genF32(t, "f32")), F64: F64(genF64(t, "f64"))}
		}),
		csvProp("RowC(times,renamed headers)", func(t *rapid.T, ex *int) RowC {
			return RowC{When: genTime(t, "when", false), Day: genTime(t, "day", true), Name: str(t, "name", ex), V: F64(genF64(t, "v")), Note: str(t, "note", ex)}
		}),
		csvProp("RowE(dates in several declared formats)", func(t *rapid.T, ex *int) RowE {
			// a small pool of days with day <= 12, so that the same text turns up in both the
			// month-first and the day-first column with different meanings
			day := func(l string) time.Time {
				if rapid.IntRange(0, 3).Draw(t, l+"_any") == 0 {
					return genTime(t, l, true)
				}
				return time.Date(2023, time.Month(rapid.IntRange(1, 4).Draw(t, l+"_m")), rapid.IntRange(1, 4).Draw(t, l+"_d"), 0, 0, 0, 0, time.UTC)
			}
			m := genTime(t, "minute", false)
			return RowE{US: day("us"), EU: day("eu"), Compact: day("compact"), Minute: m.Truncate(time.Minute), Plain: genTime(t, "plain", false)}
		}),
		csvProp("RowD(single column)", func(t *rapid.T, ex *int) RowD {
			s := str(t, "only", ex)
			if s == "" {
				s = " " // a lone empty field is dropped by encoding/csv: recorded finding, excluded by construction
				*ex++
			}
			return RowD{Only: s}
		}),
		csvProp("Snapshot", func(t *rapid.T, ex *int) asset.Snapshot {
			fin := func(l string) float64 { // finite only: asset.Snapshot's plain float64 fields must survive the replay file's JSON
				f := genF64(t, l)
				if math.IsNaN(f) || math.IsInf(f, 0) {
					return -0.75
				}
				return f
			}
			return asset.Snapshot{Date: genTime(t, "date", true), Open: fin("o"), High: fin("h"), Low: fin("l"), Close: fin("c"), Volume: fin("v")}
		}),
		jsonProp(),
		witnessProp(), slowReaderProp(),
	}
}

func TestC11(t *testing.T) { engine.RunAll(t, props(), false) }

func TestReplay(t *testing.T) { engine.Replay(t, "C11", props()) }

// Native coverage-guided fuzzing of the row codecs (thorough tier): the fuzzer's bytes drive the
// same generators through rapid.MakeFuzz, the oracle is the same round-trip check.
func FuzzCsvRowA(f *testing.F) { f.Fuzz(rapid.MakeFuzz(props()[0].Fuzz)) }
func FuzzCsvRowB(f *testing.F) { f.Fuzz(rapid.MakeFuzz(props()[1].Fuzz)) }
func FuzzCsvRowC(f *testing.F) { f.Fuzz(rapid.MakeFuzz(props()[2].Fuzz)) }
