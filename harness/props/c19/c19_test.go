// Package c19: malformed external data never panics, hangs or leaks; the readers deliver the
// records of the well-formed prefix; non-success statuses and unreadable files surface as errors.
package c19

import (
	"bytes"
	"compress/gzip"
	"encoding/csv"
	"encoding/json"
	"fmt"
	"io"
	"log/slog"
	"math"
	"net/http"
	"net/http/httptest"
	"os"
	"path/filepath"
	"reflect"
	"strconv"
	"strings"
	"sync"
	"testing"
	"time"

	"github.com/cinar/indicator/v2/asset"
	"github.com/cinar/indicator/v2/helper"
	"pgregory.net/rapid"
	"verif/harness/engine"
	"verif/harness/pipe"
)

func TestMain(m *testing.M) {
	slog.SetDefault(slog.New(slog.NewTextHandler(io.Discard, nil)))
	engine.Main(m)
}

var quiet = slog.New(slog.NewTextHandler(io.Discard, nil))

// ---- row shapes ----

type RowA struct {
	S   string
	B   bool
	I8  int8
	I16 int16
	I32 int32
	I64 int64
	I   int
}

type RowB struct {
	U8  uint8
	U16 uint16
	U32 uint32
	U64 uint64
	U   uint
	F32 float32
	F64 float64
}

type RowC struct {
	When time.Time
	Day  time.Time `format:"2006-01-02"`
	Name string    `header:"the name"`
	V    float64   `header:"v"`
}

var bitsOf = map[reflect.Kind]int{reflect.Int: strconv.IntSize, reflect.Int8: 8, reflect.Int16: 16, reflect.Int32: 32, reflect.Int64: 64,
	reflect.Uint: strconv.IntSize, reflect.Uint8: 8, reflect.Uint16: 16, reflect.Uint32: 32, reflect.Uint64: 64, reflect.Float32: 32, reflect.Float64: 64}

// parseField is the harness's own decoding of one CSV cell into a struct field, by kind.
func parseField(f reflect.Value, s, layout string) error {
	switch k := f.Kind(); k {
	case reflect.String:
		f.SetString(s)
	case reflect.Bool:
		v, err := strconv.ParseBool(s)
		if err != nil {
			return err
		}
		f.SetBool(v)
	case reflect.Int, reflect.Int8, reflect.Int16, reflect.Int32, reflect.Int64:
		v, err := strconv.ParseInt(s, 10, bitsOf[k])
		if err != nil {
			return err
		}
		f.SetInt(v)
	case reflect.Uint, reflect.Uint8, reflect.Uint16, reflect.Uint32, reflect.Uint64:
		v, err := strconv.ParseUint(s, 10, bitsOf[k])
		if err != nil {
			return err
		}
		f.SetUint(v)
	case reflect.Float32, reflect.Float64:
		v, err := strconv.ParseFloat(s, bitsOf[k])
		if err != nil {
			return err
		}
		f.SetFloat(v)
	case reflect.Struct:
		v, err := time.Parse(layout, s)
		if err != nil {
			return err
		}
		f.Set(reflect.ValueOf(v))
	}
	return nil
}

// refCSV computes the rows of the well-formed prefix. ambiguous is set when the header names a
// struct column more than once (which occurrence counts is not specified).
func refCSV[T any](data []byte, hasHeader bool) (rows []T, ambiguous bool) {
	st := reflect.TypeOf((*T)(nil)).Elem()
	r := csv.NewReader(bytes.NewReader(data))
	idx := make([]int, st.NumField())
	for i := range idx {
		idx[i] = i
	}
	if hasHeader {
		head, err := r.Read()
		if err != nil {
			return nil, false
		}
		for i := 0; i < st.NumField(); i++ {
			name, ok := st.Field(i).Tag.Lookup("header")
			if !ok {
				name = st.Field(i).Name
			}
			idx[i] = -1
			for j, h := range head {
				if h == name {
					if idx[i] >= 0 {
						ambiguous = true
					}
					idx[i] = j
				}
			}
		}
	}
	for {
		rec, err := r.Read()
		if err != nil {
			return rows, ambiguous
		}
		var row T
		v := reflect.ValueOf(&row).Elem()
		for i := 0; i < st.NumField(); i++ {
			if idx[i] < 0 {
				continue
			}
			if idx[i] >= len(rec) {
				return rows, ambiguous
			}
			layout, ok := st.Field(i).Tag.Lookup("format")
			if !ok {
				layout = helper.DefaultDateTimeFormat
			}
			if err := parseField(v.Field(i), rec[idx[i]], layout); err != nil {
				return rows, ambiguous
			}
		}
		rows = append(rows, row)
	}
}

func equalValue(a, b reflect.Value) bool {
	switch a.Kind() {
	case reflect.Float32, reflect.Float64:
		x, y := a.Float(), b.Float()
		if x != x || y != y {
			return x != x && y != y
		}
		return math.Float64bits(x) == math.Float64bits(y)
	case reflect.Struct:
		if ta, ok := a.Interface().(time.Time); ok {
			return ta.Equal(b.Interface().(time.Time))
		}
		for i := 0; i < a.NumField(); i++ {
			if !equalValue(a.Field(i), b.Field(i)) {
				return false
			}
		}
		return true
	case reflect.Ptr:
		if a.IsNil() || b.IsNil() {
			return a.IsNil() == b.IsNil()
		}
		return equalValue(a.Elem(), b.Elem())
	}
	return reflect.DeepEqual(a.Interface(), b.Interface())
}

// ---- generators of hostile bytes ----

// Case is a byte string fed to one reader.
type Case struct {
	Data   []byte `json:"data"`
	Header bool   `json:"header"`
	Status int    `json:"status,omitempty"`
	// Prior (CSV): another damaged document that the SAME codec instance reads, to its end,
	// before Data; what a codec learnt from one input must not leak into the next
	Prior []byte `json:"prior,omitempty"`
}

func validCell(t *rapid.T, k reflect.Kind, layout string) string {
	switch k {
	case reflect.String:
		return rapid.SampledFrom([]string{"abc", "", "x y", "a,b", "q\"q", "line\nbreak", "é", "0"}).Draw(t, "s")
	case reflect.Bool:
		return rapid.SampledFrom([]string{"true", "false", "1", "0", "T", "F"}).Draw(t, "b")
	case reflect.Int, reflect.Int8, reflect.Int16, reflect.Int32, reflect.Int64:
		return strconv.Itoa(rapid.IntRange(-128, 127).Draw(t, "i"))
	case reflect.Uint, reflect.Uint8, reflect.Uint16, reflect.Uint32, reflect.Uint64:
		return strconv.Itoa(rapid.IntRange(0, 255).Draw(t, "u"))
	case reflect.Float32, reflect.Float64:
		return rapid.SampledFrom([]string{"1.5", "-0", "1e3", "0.1", "NaN", "+Inf", "123456", "2.5e-3"}).Draw(t, "f")
	default:
		return time.Unix(int64(rapid.IntRange(0, 2000000000).Draw(t, "t")), 0).UTC().Format(layout)
	}
}

var hostileCells = []string{"", "x", "999999999999999999999999", "-1", "300", "70000", "1e400", "1.5", "0x10", " 1", "1 ", "tru", "2020-13-45", "2020-01-02", "\x00", "\ufeff1", "1,2", "\"", "NaN", "--1", "+5", "1_000", "18446744073709551616", "4294967296", "-129", "128", "3e38", "1e39", "Infinity"}

func genCSV[T any](t *rapid.T) Case {
	st := reflect.TypeOf((*T)(nil)).Elem()
	c := Case{Header: rapid.Bool().Draw(t, "header")}
	if rapid.IntRange(0, 7).Draw(t, "raw") == 0 {
		c.Data = rapid.SliceOfN(rapid.Byte(), 0, 60).Draw(t, "bytes")
		return c
	}
	var recs [][]string
	if c.Header {
		head := make([]string, st.NumField())
		for i := range head {
			name, ok := st.Field(i).Tag.Lookup("header")
			if !ok {
				name = st.Field(i).Name
			}
			head[i] = name
		}
		switch rapid.IntRange(0, 9).Draw(t, "headmut") {
		case 0:
			head = head[:rapid.IntRange(0, len(head)).Draw(t, "headcut")]
		case 1:
			head = append(head, "Extra")
		case 2:
			head[rapid.IntRange(0, len(head)-1).Draw(t, "headren")] = "Renamed"
		case 3:
			head = rapid.Permutation(head).Draw(t, "headperm")
		}
		recs = append(recs, head)
	}
	ncols := st.NumField()
	if c.Header {
		ncols = len(recs[0])
	}
	n := rapid.IntRange(0, 6).Draw(t, "rows")
	for r := 0; r < n; r++ {
		rec := make([]string, ncols)
		for j := range rec {
			fi := j
			if c.Header {
				fi = -1
				for i := 0; i < st.NumField(); i++ {
					name, ok := st.Field(i).Tag.Lookup("header")
					if !ok {
						name = st.Field(i).Name
					}
					if recs[0][j] == name {
						fi = i
					}
				}
			}
			if fi < 0 || fi >= st.NumField() {
				rec[j] = "junk"
				continue
			}
			layout, ok := st.Field(fi).Tag.Lookup("format")
			if !ok {
				layout = helper.DefaultDateTimeFormat
			}
			rec[j] = validCell(t, st.Field(fi).Type.Kind(), layout)
		}
		// corrupt this row?
		switch rapid.IntRange(0, 11).Draw(t, "rowmut") {
		case 0:
			if len(rec) > 0 {
				rec[rapid.IntRange(0, len(rec)-1).Draw(t, "cellidx")] = rapid.SampledFrom(hostileCells).Draw(t, "hostile")
			}
		case 1:
			if len(rec) > 0 {
				rec = rec[:rapid.IntRange(0, len(rec)-1).Draw(t, "short")]
			}
		case 2:
			rec = append(rec, "surplus")
		}
		recs = append(recs, rec)
	}
	var buf bytes.Buffer
	w := csv.NewWriter(&buf)
	for _, rec := range recs {
		if len(rec) == 0 {
			buf.WriteString("\n")
			continue
		}
		_ = w.Write(rec)
		w.Flush()
	}
	data := buf.Bytes()
	// byte-level damage
	switch rapid.IntRange(0, 9).Draw(t, "bytemut") {
	case 0:
		if len(data) > 0 {
			data = data[:rapid.IntRange(0, len(data)).Draw(t, "trunc")]
		}
	case 1:
		if len(data) > 0 {
			p := rapid.IntRange(0, len(data)-1).Draw(t, "qpos")
			data = append(append(append([]byte{}, data[:p]...), '"'), data[p:]...)
		}
	case 2:
		data = append([]byte("\xef\xbb\xbf"), data...)
	case 3:
		if len(data) > 0 {
			data[rapid.IntRange(0, len(data)-1).Draw(t, "nulpos")] = 0
		}
	case 4:
		data = bytes.ReplaceAll(data, []byte("\n"), []byte("\r\n"))
	}
	c.Data = data
	return c
}

func csvProp[T any](name string) engine.AnyProp {
	return engine.Prop[Case]{
		ID: "C19", Subject: "csv/" + name,
		Gen: func(t *rapid.T) Case {
			c := genCSV[T](t)
			if rapid.IntRange(0, 2).Draw(t, "reused_codec") == 0 {
				if p := genCSV[T](t); p.Header == c.Header && len(p.Data) > 0 {
					c.Prior = p.Data
				}
			}
			return c
		},
		Check: func(c Case) engine.Outcome { return checkCSV[T](name, c) },
	}
}

func checkCSV[T any](name string, c Case) engine.Outcome {
	var o engine.Outcome
	codec, err := helper.NewCsv[T](c.Header)
	if err != nil {
		o.Failf("NewCsv: %v", err)
		return o
	}
	codec.Logger = quiet
	if c.Prior != nil {
		first := pipe.Run([][]int{}, pipe.Opts{SpinLimit: 10 * time.Second}, func(_ []<-chan int) []<-chan *T {
			return []<-chan *T{codec.ReadFromReader(bytes.NewReader(c.Prior))}
		})
		if !first.OK() {
			o.Failf("csv/%s header=%v on %q: %s: %s", name, c.Header, c.Prior, first.Verdict, first.Detail)
			return o
		}
		o.Class("codec_instance_read_another_document_before")
	}
	res := pipe.Run([][]int{}, pipe.Opts{SpinLimit: 10 * time.Second}, func(_ []<-chan int) []<-chan *T {
		return []<-chan *T{codec.ReadFromReader(bytes.NewReader(c.Data))}
	})
	if !res.OK() {
		o.Failf("csv/%s header=%v on %q: %s: %s", name, c.Header, c.Data, res.Verdict, res.Detail)
		return o
	}
	want, ambiguous := refCSV[T](c.Data, c.Header)
	got := res.Outs[0]
	if !ambiguous {
		if len(got) != len(want) {
			o.Failf("csv/%s header=%v on %q (same codec read %q before): delivered %d rows, the well-formed prefix has %d (%+v)", name, c.Header, c.Data, c.Prior, len(got), len(want), want)
			return o
		}
		for i := range want {
			if got[i] == nil || !equalValue(reflect.ValueOf(*got[i]), reflect.ValueOf(want[i])) {
				o.Failf("csv/%s header=%v on %q (same codec read %q before): row %d delivered as %+v, the input says %+v", name, c.Header, c.Data, c.Prior, i, got[i], want[i])
				return o
			}
		}
	}
	// the whole input is well formed only if a strict re-read consumes everything
	all, _ := csv.NewReader(bytes.NewReader(c.Data)).ReadAll()
	total := len(all)
	if c.Header && total > 0 {
		total--
	}
	o.NonTrivial = len(want) >= 1 && len(want) < total
	if len(want) == total && total > 0 {
		o.Class("fully_well_formed")
	}
	if len(want) == 0 {
		o.Class("no_well_formed_record")
	}
	if c.Header {
		o.Class("with_header")
	} else {
		o.Class("without_header")
	}
	o.Add("rows_delivered", len(got))
	o.Key = fmt.Sprint(c.Header, string(c.Data), string(c.Prior))
	return o
}

// ---- JSON stream reader ----

func refJSON[T any](data []byte) []T {
	dec := json.NewDecoder(bytes.NewReader(data))
	tok, err := dec.Token()
	if err != nil || tok != json.Delim('[') {
		return nil
	}
	var out []T
	for dec.More() {
		var raw json.RawMessage
		if err := dec.Decode(&raw); err != nil {
			return out
		}
		var v T
		if err := json.Unmarshal(raw, &v); err != nil {
			return out
		}
		out = append(out, v)
	}
	return out
}

var jsonElems = map[string][]string{
	"int":      {"1", "-5", "0", "9007199254740993", "1.5", "\"x\"", "null", "true", "1e2", "99999999999999999999", "{}", "[1]"},
	"float64":  {"1.5", "-0", "1e308", "1e999", "3", "\"1\"", "null", "false", "[]", "0.1"},
	"string":   {"\"a\"", "\"\"", "\"\\u00e9\"", "\"\\ud800\"", "5", "null", "\"line\\nbreak\"", "{\"a\":1}"},
	"snapshot": {`{"Date":"2020-01-02T00:00:00Z","Open":1,"High":2,"Low":0.5,"Close":1.5,"Volume":100}`, `{"Date":"2020-01-03T00:00:00Z"}`, `{"Date":"yesterday"}`, `{"Open":"1"}`, `{}`, `null`, `5`, `{"Date":"2020-01-02T00:00:00Z","Open":1e999}`, `[]`},
	"tiingo":   {`{"date":"2020-01-02T00:00:00.000Z","adjOpen":1,"adjHigh":2,"adjLow":0.5,"adjClose":1.5,"adjVolume":100}`, `{"date":"2020-01-03T00:00:00.000Z","adjVolume":1.5}`, `{"date":"bad"}`, `{}`, `7`, `null`, `{"adjOpen":"x"}`, `{"date":"2020-01-04T00:00:00.000Z","adjClose":3}`},
}

func genJSON(kind string) func(t *rapid.T) Case {
	return func(t *rapid.T) Case {
		if rapid.IntRange(0, 7).Draw(t, "raw") == 0 {
			return Case{Data: rapid.SliceOfN(rapid.Byte(), 0, 50).Draw(t, "bytes"), Status: 200}
		}
		n := rapid.IntRange(0, 6).Draw(t, "n")
		elems := make([]string, n)
		for i := range elems {
			if rapid.IntRange(0, 3).Draw(t, "good") > 0 {
				elems[i] = jsonElems[kind][0]
				if rapid.Bool().Draw(t, "second") {
					elems[i] = jsonElems[kind][1]
				}
			} else {
				elems[i] = rapid.SampledFrom(jsonElems[kind]).Draw(t, "elem")
			}
		}
		sep := rapid.SampledFrom([]string{",", ",", ",", ", ", " ", ",,", ";"}).Draw(t, "sep")
		body := "[" + strings.Join(elems, sep) + "]"
		switch rapid.IntRange(0, 11).Draw(t, "mut") {
		case 0:
			body = body[:rapid.IntRange(0, len(body)).Draw(t, "trunc")]
		case 1:
			body = "{\"data\":" + body + "}"
		case 2:
			body = strings.TrimSuffix(body, "]")
		case 3:
			body = "5 " + strings.Join(elems, " ")
		case 4:
			body = "\xef\xbb\xbf" + body
		case 5:
			body = body + " trailing"
		case 6:
			body = strings.Replace(body, "[", "[,", 1)
		case 7:
			body = ""
		}
		st := 200
		if rapid.IntRange(0, 3).Draw(t, "statusclass") == 0 {
			st = rapid.SampledFrom([]int{204, 301, 400, 401, 404, 429, 500, 503}).Draw(t, "status")
		}
		return Case{Data: []byte(body), Status: st}
	}
}

func jsonProp[T any](name, kind string) engine.AnyProp {
	return engine.Prop[Case]{
		ID: "C19", Subject: "json/" + name, Gen: genJSON(kind),
		Check: func(c Case) engine.Outcome {
			var o engine.Outcome
			res := pipe.Run([][]int{}, pipe.Opts{SpinLimit: 10 * time.Second}, func(_ []<-chan int) []<-chan T {
				return []<-chan T{helper.JSONToChanWithLogger[T](bytes.NewReader(c.Data), quiet)}
			})
			if !res.OK() {
				o.Failf("json/%s on %q: %s: %s", name, c.Data, res.Verdict, res.Detail)
				return o
			}
			want := refJSON[T](c.Data)
			got := res.Outs[0]
			if len(got) != len(want) {
				o.Failf("json/%s on %q: delivered %d values %v, the well-formed prefix has %d %v", name, c.Data, len(got), got, len(want), want)
				return o
			}
			for i := range want {
				if !equalValue(reflect.ValueOf(got[i]), reflect.ValueOf(want[i])) {
					o.Failf("json/%s on %q: value %d delivered as %+v, the input says %+v", name, c.Data, i, got[i], want[i])
					return o
				}
			}
			var whole []json.RawMessage
			wellFormed := json.Unmarshal(c.Data, &whole) == nil
			o.NonTrivial = len(want) >= 1 && (!wellFormed || len(want) < len(whole))
			if wellFormed && len(want) == len(whole) {
				o.Class("fully_well_formed")
			}
			o.Add("values_delivered", len(got))
			o.Key = string(c.Data)
			return o
		},
	}
}

// ---- Tiingo over an httptest server ----

var (
	srvOnce sync.Once
	srv     *httptest.Server
	srvMu   sync.Mutex
	srvBody []byte
	srvCode int
)

func server() *httptest.Server {
	srvOnce.Do(func() {
		srv = httptest.NewServer(http.HandlerFunc(func(w http.ResponseWriter, r *http.Request) {
			srvMu.Lock()
			body, code := srvBody, srvCode
			srvMu.Unlock()
			if code == 301 && !strings.HasSuffix(r.URL.Path, "/moved") {
				http.Redirect(w, r, r.URL.Path+"/moved", http.StatusMovedPermanently)
				return
			}
			if code == 301 {
				code = 200
			}
			// a server that honours Accept-Encoding, as the real API and every compressing proxy do
			// (Go's transport asks for gzip by itself and decodes transparently)
			if strings.Contains(r.Header.Get("Accept-Encoding"), "gzip") && code != 204 && len(body)%3 != 0 {
				w.Header().Set("Content-Encoding", "gzip")
				w.WriteHeader(code)
				zw := gzip.NewWriter(w)
				_, _ = zw.Write(body)
				_ = zw.Close()
				return
			}
			w.WriteHeader(code)
			if code != 204 {
				_, _ = w.Write(body)
			}
		}))
	})
	return srv
}

func tiingoProp() engine.AnyProp {
	return engine.Prop[Case]{
		ID: "C19", Subject: "tiingo", Gen: genJSON("tiingo"),
		Check: func(c Case) engine.Outcome {
			var o engine.Outcome
			s := server()
			srvMu.Lock()
			srvBody, srvCode = c.Data, c.Status
			srvMu.Unlock()
			repo := asset.NewTiingoRepository("key")
			if len(c.Data)%2 == 1 {
				// the route the command-line programs take: the repository factory
				if r, err := asset.NewRepository(asset.TiingoRepositoryBuilderName, "key"); err == nil {
					repo = r.(*asset.TiingoRepository)
					o.Class("built_by_the_repository_factory")
				}
			}
			repo.BaseURL = s.URL
			repo.Logger = quiet
			var getErr error
			res := pipe.Run([][]int{}, pipe.Opts{SpinLimit: 10 * time.Second}, func(_ []<-chan int) []<-chan *asset.Snapshot {
				ch, err := repo.GetSince("aapl", time.Date(2020, 1, 1, 0, 0, 0, 0, time.UTC))
				getErr = err
				if err != nil {
					empty := make(chan *asset.Snapshot)
					close(empty)
					return []<-chan *asset.Snapshot{empty}
				}
				return []<-chan *asset.Snapshot{ch}
			})
			if !res.OK() {
				o.Failf("tiingo GetSince status %d body %q: %s: %s", c.Status, c.Data, res.Verdict, res.Detail)
				return o
			}
			success := c.Status == 200 || c.Status == 301
			if !success {
				if getErr == nil {
					o.Failf("tiingo GetSince: HTTP status %d surfaced as a success with %d snapshots", c.Status, len(res.Outs[0]))
					return o
				}
			} else {
				if getErr != nil {
					o.Failf("tiingo GetSince: status %d but error %v", c.Status, getErr)
					return o
				}
				want := refJSON[asset.TiingoEndOfDay](c.Data)
				got := res.Outs[0]
				if len(got) != len(want) {
					o.Failf("tiingo GetSince on body %q: delivered %d snapshots, the well-formed prefix of the array has %d", c.Data, len(got), len(want))
					return o
				}
				for i := range want {
					if got[i] == nil || !equalValue(reflect.ValueOf(*got[i]), reflect.ValueOf(*want[i].ToSnapshot())) {
						o.Failf("tiingo GetSince on body %q: snapshot %d is %+v, the body says %+v", c.Data, i, got[i], want[i].ToSnapshot())
						return o
					}
				}
				o.NonTrivial = len(want) >= 1
				var whole []json.RawMessage
				if json.Unmarshal(c.Data, &whole) == nil && len(whole) == len(want) {
					o.NonTrivial = false
					o.Class("fully_well_formed")
				}
			}
			// LastDate: never panics; non-success statuses are errors; a well-formed meta object yields its end date
			ld, err := repo.LastDate("aapl")
			if !success && err == nil {
				o.Failf("tiingo LastDate: HTTP status %d surfaced as success (%v)", c.Status, ld)
				return o
			}
			if success {
				var meta asset.TiingoMeta
				if uerr := json.Unmarshal(c.Data, &meta); uerr != nil && err == nil {
					o.Failf("tiingo LastDate: malformed body %q surfaced as success (%v)", c.Data, ld)
					return o
				}
			}
			if !success {
				o.Class(fmt.Sprintf("status_%d", c.Status))
				o.NonTrivial = true
			}
			o.Key = fmt.Sprint(c.Status, string(c.Data))
			return o
		},
	}
}

// ---- unreadable paths ----

type pathCase struct {
	Kind int `json:"kind"` // 0 missing file, 1 directory, 2 missing directory
}

func pathProp() engine.AnyProp {
	return engine.Prop[pathCase]{
		ID: "C19", Subject: "unreadable-paths",
		Gen: func(t *rapid.T) pathCase { return pathCase{Kind: rapid.IntRange(0, 2).Draw(t, "kind")} },
		Check: func(c pathCase) engine.Outcome {
			var o engine.Outcome
			dir, err := os.MkdirTemp("", "verif-c19-")
			if err != nil {
				o.Failf("harness: %v", err)
				return o
			}
			defer os.RemoveAll(dir)
			switch c.Kind {
			case 0:
				if ch, err := helper.ReadFromCsvFile[RowA](filepath.Join(dir, "missing.csv"), true); err == nil {
					go helper.Drain(ch)
					o.Failf("ReadFromCsvFile of a missing file returned no error")
				}
				repo := asset.NewFileSystemRepository(dir)
				if ch, err := repo.Get("missing"); err == nil {
					go helper.Drain(ch)
					o.Failf("FileSystemRepository.Get of a missing asset returned no error")
				}
				if _, err := repo.LastDate("missing"); err == nil {
					o.Failf("FileSystemRepository.LastDate of a missing asset returned no error")
				}
			case 1:
				_ = os.Mkdir(filepath.Join(dir, "adir.csv"), 0o755)
				// opening a directory succeeds on Linux; reading it must end the stream, not hang
				// (the file is opened inside the guarded run: its goroutines must not predate it)
				res := pipe.Run([][]int{}, pipe.Opts{SpinLimit: 10 * time.Second}, func(_ []<-chan int) []<-chan *RowA {
					ch, err := helper.ReadFromCsvFile[RowA](filepath.Join(dir, "adir.csv"), true)
					if err != nil {
						empty := make(chan *RowA)
						close(empty)
						return []<-chan *RowA{empty}
					}
					return []<-chan *RowA{ch}
				})
				if !res.OK() || len(res.Outs[0]) != 0 {
					o.Failf("reading a directory as CSV: %s, %d rows", res.Verdict, len(res.Outs[0]))
				}
			case 2:
				repo := asset.NewFileSystemRepository(filepath.Join(dir, "nope"))
				if _, err := repo.Assets(); err == nil {
					o.Failf("FileSystemRepository.Assets of a missing directory returned no error")
				}
			}
			o.NonTrivial = true
			o.Key = fmt.Sprint(c.Kind)
			return o
		},
	}
}

// ---- the file-system repository over a damaged (and possibly long) asset file ----

// fsCase: a generated CSV document, preceded by Pad well-formed rows (files longer than the copy
// and buffer sizes of the I/O layers).
type fsCase struct {
	Data  []byte `json:"data"`
	Pad   int    `json:"pad"`
	After bool   `json:"after,omitempty"` // the padding rows follow the document instead of preceding its rows
}

func fsRepoProp() engine.AnyProp {
	return engine.Prop[fsCase]{
		ID: "C19", Subject: "filesystem-repository",
		Gen: func(t *rapid.T) fsCase {
			c := genCSV[asset.Snapshot](t)
			for !c.Header {
				c = genCSV[asset.Snapshot](t)
			}
			pad := 0
			if rapid.IntRange(0, 4).Draw(t, "padded") == 2 {
				pad = rapid.SampledFrom([]int{100, 900, 1800, 3000}).Draw(t, "pad")
			}
			return fsCase{Data: c.Data, Pad: pad, After: rapid.Bool().Draw(t, "after")}
		},
		Check: func(c fsCase) engine.Outcome {
			var o engine.Outcome
			data := c.Data
			if c.Pad > 0 {
				// insert the padding rows right after the header line (if the header has the six
				// columns in order; otherwise the document is left as it is)
				head := []byte("Date,Open,High,Low,Close,Volume\n")
				if bytes.HasPrefix(data, head) {
					var sb bytes.Buffer
					sb.Write(head)
					if c.After {
						sb.Write(data[len(head):])
						if n := sb.Len(); n > 0 && sb.Bytes()[n-1] != '\n' {
							sb.WriteByte('\n')
						}
					}
					for i := 0; i < c.Pad; i++ {
						fmt.Fprintf(&sb, "2001-01-%02d,%d.5,%d.75,%d.25,%d.5,%d\n", 1+i%28, i, i, i, i, 1000+i)
					}
					if !c.After {
						sb.Write(data[len(head):])
					}
					data = sb.Bytes()
				}
			}
			dir, err := os.MkdirTemp("", "verif-c19-fs-")
			if err != nil {
				o.Failf("harness: %v", err)
				return o
			}
			defer os.RemoveAll(dir)
			if err := os.WriteFile(filepath.Join(dir, "aapl.csv"), data, 0o600); err != nil {
				o.Failf("harness: %v", err)
				return o
			}
			repo := asset.NewFileSystemRepository(dir)
			var getErr error
			res := pipe.Run([][]int{}, pipe.Opts{SpinLimit: 10 * time.Second}, func(_ []<-chan int) []<-chan *asset.Snapshot {
				ch, err := repo.Get("aapl")
				getErr = err
				if err != nil {
					empty := make(chan *asset.Snapshot)
					close(empty)
					return []<-chan *asset.Snapshot{empty}
				}
				return []<-chan *asset.Snapshot{ch}
			})
			if !res.OK() {
				o.Failf("FileSystemRepository.Get on a file of %d bytes (%d padding rows, then %q): %s: %s", len(data), c.Pad, c.Data, res.Verdict, res.Detail)
				return o
			}
			want, ambiguous := refCSV[asset.Snapshot](data, true)
			if getErr == nil && !ambiguous {
				got := res.Outs[0]
				if len(got) != len(want) {
					o.Failf("FileSystemRepository.Get on a file of %d bytes (%d padding rows, then %q): delivered %d snapshots, the well-formed prefix has %d", len(data), c.Pad, c.Data, len(got), len(want))
					return o
				}
				for i := range want {
					if got[i] == nil || !equalValue(reflect.ValueOf(*got[i]), reflect.ValueOf(want[i])) {
						o.Failf("FileSystemRepository.Get (%d padding rows, then %q): snapshot %d delivered as %+v, the file says %+v", c.Pad, c.Data, i, got[i], want[i])
						return o
					}
				}
			}
			// LastDate reads the same file to its end (or to the damage) and must come back
			if verdict, detail := pipe.Call(func() { _, _ = repo.LastDate("aapl") }); verdict != "ok" {
				o.Failf("FileSystemRepository.LastDate on a damaged file: %s: %s", verdict, detail)
				return o
			}
			all, _ := csv.NewReader(bytes.NewReader(data)).ReadAll()
			o.NonTrivial = len(want) >= 1 && len(want) < len(all)-1
			if len(data) > 64<<10 {
				o.Class("file_longer_than_64KiB")
			}
			o.Key = fmt.Sprint(c.Pad, string(c.Data))
			return o
		},
	}
}

// tiingoSlowProp: a body that arrives slowly is not a body that is damaged. Once per run (shard 0)
// a well-formed array of 3000 records is served in two parts 21 s apart (61 s in the thorough
// tier; the pause is waiting, not a verdict) to a repository built by the factory; every record
// must arrive.
var slowBodyOnce sync.Once

func tiingoSlowProp() engine.AnyProp {
	return engine.Prop[pathCase]{
		ID: "C19", Subject: "tiingo/slow-body",
		Gen: func(t *rapid.T) pathCase { return pathCase{Kind: rapid.IntRange(0, 1).Draw(t, "kind")} },
		Check: func(c pathCase) engine.Outcome {
			var o engine.Outcome
			o.Key = "skipped"
			if engine.Shard() != 0 {
				return o
			}
			slowBodyOnce.Do(func() {
				o.Key = "slow body"
				pause := 21 * time.Second
				if engine.Thorough() {
					pause = 61 * time.Second
				}
				const records = 3000
				var body bytes.Buffer
				body.WriteString("[")
				for i := 0; i < records; i++ {
					if i > 0 {
						body.WriteString(",")
					}
					fmt.Fprintf(&body, `{"date":"2020-01-%02dT00:00:00.000Z","adjOpen":%d,"adjHigh":%d.5,"adjLow":%d.25,"adjClose":%d.75,"adjVolume":%d}`, 1+i%28, i, i, i, i, 100+i)
				}
				body.WriteString("]")
				half := body.Len() / 2
				slow := httptest.NewServer(http.HandlerFunc(func(w http.ResponseWriter, r *http.Request) {
					w.WriteHeader(200)
					_, _ = w.Write(body.Bytes()[:half])
					if f, ok := w.(http.Flusher); ok {
						f.Flush()
					}
					time.Sleep(pause)
					_, _ = w.Write(body.Bytes()[half:])
				}))
				defer slow.Close()
				r, err := asset.NewRepository(asset.TiingoRepositoryBuilderName, "key")
				if err != nil {
					o.Failf("NewRepository(tiingo): %v", err)
					return
				}
				repo := r.(*asset.TiingoRepository)
				repo.BaseURL, repo.Logger = slow.URL, quiet
				res := pipe.Run([][]int{}, pipe.Opts{}, func(_ []<-chan int) []<-chan *asset.Snapshot {
					ch, err := repo.GetSince("aapl", time.Date(2020, 1, 1, 0, 0, 0, 0, time.UTC))
					if err != nil {
						empty := make(chan *asset.Snapshot)
						close(empty)
						return []<-chan *asset.Snapshot{empty}
					}
					return []<-chan *asset.Snapshot{ch}
				})
				if !res.OK() || len(res.Outs[0]) != records {
					o.Failf("tiingo GetSince on a well-formed body of %d records served in two parts %v apart: %s, %d records delivered", records, pause, res.Verdict, len(res.Outs[0]))
					return
				}
				o.NonTrivial = true
				o.Add("slow_bodies", 1)
			})
			return o
		},
	}
}

func props() []engine.AnyProp {
	return []engine.AnyProp{
		tiingoSlowProp(),
		fsRepoProp(),
		csvProp[RowA]("RowA(string,bool,ints)"), csvProp[RowB]("RowB(uints,floats)"), csvProp[RowC]("RowC(times,renamed)"), csvProp[asset.Snapshot]("Snapshot"),
		jsonProp[int]("int", "int"), jsonProp[float64]("float64", "float64"), jsonProp[string]("string", "string"), jsonProp[asset.Snapshot]("Snapshot", "snapshot"),
		tiingoProp(), pathProp(),
	}
}

func TestC19(t *testing.T) { engine.RunAll(t, props(), false) }

func TestReplay(t *testing.T) { engine.Replay(t, "C19", props()) }

// ---- native coverage-guided fuzz targets (thorough tier): raw bytes, same oracles ----

func fuzzCSV(f *testing.F, header bool) {
	f.Add([]byte("S,B,I8,I16,I32,I64,I\nx,true,1,2,3,4,5\n"), uint8(0))
	f.Add([]byte("x,true,1,2,3,4,5\ny,false,1\n"), uint8(0))
	f.Add([]byte("U8,U16,U32,U64,U,F32,F64\n300,1,1,1,1,1.5,2.5\n"), uint8(1))
	f.Add([]byte("When,Day,the name,v\n2020-01-02 03:04:05,2020-01-02,n,1\n"), uint8(2))
	f.Add([]byte("Date,Open,High,Low,Close,Volume\n2020-01-02,1,2,3,4,5\n2020-01-03,1\n"), uint8(3))
	f.Add([]byte("\"a\nb\",1"), uint8(0))
	f.Add([]byte("\xef\xbb\xbfS\nx\n"), uint8(0))
	f.Add([]byte("1,2,3\n\"unterminated"), uint8(1))
	f.Fuzz(func(t *testing.T, data []byte, shape uint8) {
		c := Case{Data: data, Header: header}
		var o engine.Outcome
		switch shape % 4 {
		case 0:
			o = checkCSV[RowA]("RowA", c)
		case 1:
			o = checkCSV[RowB]("RowB", c)
		case 2:
			o = checkCSV[RowC]("RowC", c)
		default:
			o = checkCSV[asset.Snapshot]("Snapshot", c)
		}
		if o.Fail != "" {
			t.Fatal(o.Fail)
		}
	})
}

func FuzzCsvHeader(f *testing.F)   { fuzzCSV(f, true) }
func FuzzCsvNoHeader(f *testing.F) { fuzzCSV(f, false) }

func FuzzJSON(f *testing.F) {
	f.Add([]byte("[1,2,3]"), uint8(0))
	f.Add([]byte(`[{"Date":"2020-01-02T00:00:00Z","Open":1}]`), uint8(3))
	f.Add([]byte(`{"a":1}`), uint8(0))
	f.Add([]byte(`[1,`), uint8(1))
	f.Add([]byte(`["a","\ud800",5]`), uint8(2))
	ps := props()
	f.Fuzz(func(t *testing.T, data []byte, shape uint8) {
		p := ps[4+int(shape%4)]
		raw, _ := json.Marshal(Case{Data: data, Status: 200})
		if o := engine.ReplayRaw(p, raw); o.Fail != "" {
			t.Fatal(o.Fail)
		}
	})
}
