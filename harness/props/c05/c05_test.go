// Package c05: strategies emit exactly one action per snapshot, Hold through the warm-up.
package c05

import (
	"fmt"
	"testing"

	"github.com/cinar/indicator/v2/strategy"
	"pgregory.net/rapid"
	"verif/harness/engine"
	"verif/harness/gen"
	"verif/harness/pipe"
	"verif/harness/reg"
	"verif/harness/sreg"
	"verif/harness/stub"
)

func TestMain(m *testing.M) { engine.Main(m) }

// Case is a base strategy execution.
type Case struct {
	Plain bool       `json:"plain"`
	Cfg   reg.Config `json:"cfg"`
	Bars  gen.Bars   `json:"bars"`
}

// genN biases the snapshot count to {0, 1, w-1, w, w+1} and [0, 3w+5].
func genN(t *rapid.T, w int) int {
	switch rapid.IntRange(0, 9).Draw(t, "n_class") {
	case 0:
		return rapid.IntRange(0, 1).Draw(t, "n01")
	case 1, 2, 3:
		n := w + rapid.IntRange(-1, 1).Draw(t, "n_w")
		if n < 0 {
			n = 0
		}
		return n
	}
	return rapid.IntRange(0, 3*w+5).Draw(t, "n")
}

func checkActions(name string, acts []strategy.Action, n, w int, lateKey string, o *engine.Outcome) {
	for i, a := range acts {
		if a != strategy.Buy && a != strategy.Sell && a != strategy.Hold {
			o.Failf("%s: action #%d is %d, not one of Sell, Hold, Buy", name, i, a)
			return
		}
	}
	holds := func(k int) bool {
		for i := 0; i < k && i < len(acts); i++ {
			if acts[i] != strategy.Hold {
				return false
			}
		}
		return true
	}
	if n >= w {
		if len(acts) == n && holds(w) {
			return
		}
		if lateKey != "" && len(acts) == n+1 && holds(w+1) {
			o.KnownAs(lateKey)
			return
		}
		if len(acts) != n {
			o.Failf("%s: %d actions for %d snapshots (warm-up %d): %v", name, len(acts), n, w, acts)
			return
		}
		o.Failf("%s: a non-Hold action before the warm-up of %d snapshots has elapsed (n=%d): %v", name, w, n, acts)
		return
	}
	if len(acts) < n {
		o.Failf("%s: only %d actions for %d snapshots (shorter than the warm-up %d)", name, len(acts), n, w)
		return
	}
	if !holds(len(acts)) {
		o.Failf("%s: a non-Hold action on an input of %d snapshots, shorter than the warm-up %d: %v", name, n, w, acts)
	}
}

func baseProp(st sreg.Strat) engine.AnyProp {
	return engine.Prop[Case]{
		ID: "C05", Subject: st.Name,
		Gen: func(t *rapid.T) Case {
			c := Case{Cfg: st.GenConfigLoose(t)}
			if st.Plain != nil && rapid.IntRange(0, 11).Draw(t, "plain") == 0 {
				c.Plain = true
			}
			w := st.Warm(st.BuildLeaf(c.Plain, c.Cfg))
			n := genN(t, w)
			if engine.OncePerRun("C05-very-long/" + st.Name) {
				n = 1<<16 + 8 // every base strategy once per run: one action per snapshot on a long history too
			}
			c.Bars = gen.GenBarsAny(t, n)
			return c
		},
		Check: func(c Case) engine.Outcome {
			var o engine.Outcome
			s := st.BuildLeaf(c.Plain, c.Cfg)
			w, n := st.Warm(s), c.Bars.Len()
			res := sreg.RunStrategy(s, stub.Snapshots(c.Bars), pipe.Opts{})
			if res.Verdict == "deadlock" {
				o.Failf("%s %v n=%d: %s: %s", st.Name, c.Cfg, n, res.Verdict, res.Detail)
				return o
			}
			acts := res.Outs[0]
			checkActions(fmt.Sprintf("%s %v plain=%v", st.Name, c.Cfg, c.Plain), acts, n, w, st.LateKey, &o)
			nonHold := 0
			for _, a := range acts {
				if a != strategy.Hold {
					nonHold++
				}
			}
			o.NonTrivial = (n >= w && nonHold > 0) || (n >= w-1 && n <= w+1)
			if n < w {
				o.Class("n<warm-up")
			}
			if n == w || n == w+1 || n == w-1 {
				o.Class("n within 1 of warm-up")
			}
			if c.Plain {
				o.Class("default_configuration")
			}
			o.Add("non_hold_actions", nonHold)
			o.Key = fmt.Sprint(c.Plain, c.Cfg, n, c.Bars.Close)
			return o
		},
	}
}

// TreeCase is a decorated / compound strategy execution.
type TreeCase struct {
	Tree sreg.Tree `json:"tree"`
	Bars gen.Bars  `json:"bars"`
}

func treeProp() engine.AnyProp {
	names := sreg.OnTimeNames()
	return engine.Prop[TreeCase]{
		ID: "C05", Subject: "decorated+compound",
		Gen: func(t *rapid.T) TreeCase {
			tr := sreg.GenTree(t, names, 2)
			if tr.Op == "leaf" { // make sure there is at least one operator
				tr = sreg.Tree{Op: rapid.SampledFrom([]string{"inverse", "noloss", "stoploss"}).Draw(t, "wrap"), Pct: 0.125, Kids: []sreg.Tree{tr}}
			}
			w := tr.MaxWarm()
			return TreeCase{Tree: tr, Bars: gen.GenBarsAny(t, genN(t, w))}
		},
		Check: func(c TreeCase) engine.Outcome {
			var o engine.Outcome
			s := c.Tree.Build()
			w, n := c.Tree.Warm(), c.Bars.Len()
			res := sreg.RunStrategy(s, stub.Snapshots(c.Bars), pipe.Opts{})
			if res.Verdict == "deadlock" {
				o.Failf("%s n=%d: %s: %s", c.Tree, n, res.Verdict, res.Detail)
				return o
			}
			if res.Verdict == "leak" {
				o.Add("runs_leaving_goroutines_behind(C03's business)", 1)
			}
			acts := res.Outs[0]
			if n >= c.Tree.MaxWarm() {
				checkActions(c.Tree.String(), acts, n, w, "", &o)
			} else {
				// some leaf is still warming up: every leaf emits at least n actions, so does the tree
				for i, a := range acts {
					if a != strategy.Buy && a != strategy.Sell && a != strategy.Hold {
						o.Failf("%s: action #%d is %d", c.Tree, i, a)
					}
				}
				if len(acts) < n {
					o.Failf("%s: only %d actions for %d snapshots", c.Tree, len(acts), n)
				}
				for i := 0; i < w && i < len(acts); i++ {
					if acts[i] != strategy.Hold {
						o.Failf("%s: non-Hold action #%d before the warm-up %d", c.Tree, i, w)
					}
				}
			}
			nonHold := 0
			for _, a := range acts {
				if a != strategy.Hold {
					nonHold++
				}
			}
			// whatever one takes the warm-up of a compound to be: an input shorter than it yields only
			// Holds, so an output that holds a Buy or Sell comes from an input of at least the warm-up
			// and must have exactly one action per snapshot
			if nonHold > 0 && len(acts) != n {
				o.Failf("%s: %d actions for %d snapshots although the output holds %d non-Hold action(s) (only an all-Hold output of a too short input may be longer): %v", c.Tree, len(acts), n, nonHold, acts)
			}
			o.NonTrivial = n >= w && nonHold > 0
			o.Class("root:" + c.Tree.Op)
			o.Add("non_hold_actions", nonHold)
			o.Add("compounds_excluding_late_strategies", 1)
			o.Key = fmt.Sprint(c.Tree, n, c.Bars.Close)
			return o
		},
	}
}

func props() []engine.AnyProp {
	var ps []engine.AnyProp
	for _, st := range sreg.Base() {
		ps = append(ps, baseProp(st))
	}
	return append(ps, treeProp(), slowFeedProp())
}

func TestC05(t *testing.T) { engine.RunAll(t, props(), false) }

func TestReplay(t *testing.T) { engine.Replay(t, "C05", props()) }
