package c05

import (
	"fmt"
	"sync"
	"time"

	"github.com/cinar/indicator/v2/asset"
	"github.com/cinar/indicator/v2/strategy"
	strend "github.com/cinar/indicator/v2/strategy/trend"
	"pgregory.net/rapid"
	"verif/harness/engine"
	"verif/harness/pipe"
	"verif/harness/stub"
)

// slowFeedProp: a feed that is slow is not a feed that has ended. Once per run a live feed is
// imitated: the snapshot producer pauses (21 s in the quick tier, 61 s in the thorough one; the
// pause is waiting, not a verdict) while the slower members of And / Or / Majority groups are
// still warming up and the faster ones already need the next snapshot. Every group must still
// emit one action per snapshot.
type slowCase struct {
	N int `json:"n"`
}

func slowFeedProp() engine.AnyProp {
	return engine.Prop[slowCase]{
		ID: "C05", Subject: "compound/slow-feed",
		Gen: func(t *rapid.T) slowCase { return slowCase{N: rapid.IntRange(50, 70).Draw(t, "n")} },
		Check: func(c slowCase) engine.Outcome {
			var o engine.Outcome
			o.Key = "skipped"
			if !engine.OncePerRun("C05-slow-feed") {
				return o
			}
			o.Key = fmt.Sprint("slow feed", c.N)
			pause := 21 * time.Second
			if engine.Thorough() {
				pause = 61 * time.Second
			}
			closes := make([]float64, c.N)
			for i := range closes {
				closes[i] = 100 + float64(i%7) - float64(i%3)
			}
			sn := stub.SnapshotsFromCloses(closes)
			groups := map[string]func() strategy.Strategy{
				"and": func() strategy.Strategy {
					return strategy.NewAndStrategy("and", strend.NewGoldenCrossStrategyWith(5, 40), strategy.NewBuyAndHoldStrategy())
				},
				"or": func() strategy.Strategy {
					return strategy.NewOrStrategy("or", strend.NewGoldenCrossStrategyWith(5, 40), strategy.NewBuyAndHoldStrategy())
				},
				"majority": func() strategy.Strategy {
					return strategy.NewMajorityStrategyWith("majority", []strategy.Strategy{strend.NewGoldenCrossStrategyWith(5, 40), strategy.NewBuyAndHoldStrategy(), strend.NewGoldenCrossStrategyWith(3, 30)})
				},
			}
			counts := map[string]int{}
			var cmu sync.Mutex
			verdict, detail := pipe.Call(func() {
				// all three groups are fed by one producer that pauses once, at snapshot 10
				ins := map[string]chan *asset.Snapshot{}
				done := make(chan string, len(groups))
				for name, mk := range groups {
					ch := make(chan *asset.Snapshot)
					ins[name] = ch
					go func(name string, acts <-chan strategy.Action) {
						n := 0
						for range acts {
							n++
						}
						cmu.Lock()
						counts[name+"#"] = n
						cmu.Unlock()
						done <- name
					}(name, mk().Compute(ch))
				}
				for i, s := range sn {
					if i == 10 {
						time.Sleep(pause)
					}
					for _, ch := range ins {
						ch <- s
					}
				}
				for _, ch := range ins {
					close(ch)
				}
				for range groups {
					<-done
				}
			})
			if verdict != "ok" {
				o.Failf("groups over a feed that pauses %v at snapshot 10: %s: %s", pause, verdict, detail)
				return o
			}
			for name := range groups {
				if got := counts[name+"#"]; got != c.N {
					o.Failf("%s group over a feed of %d snapshots that pauses %v at snapshot 10 emitted %d actions (one per snapshot is due: a slow feed has not ended)", name, c.N, pause, got)
					return o
				}
			}
			o.NonTrivial = true
			o.Add("slow_feeds", 1)
			return o
		},
	}
}
