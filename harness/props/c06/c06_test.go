// Package c06: each base strategy applies its documented rule to the documented data.
package c06

import (
	"fmt"
	"testing"
	"time"

	"github.com/cinar/indicator/v2/asset"
	"github.com/cinar/indicator/v2/strategy"
	"pgregory.net/rapid"
	"verif/harness/engine"
	"verif/harness/gen"
	"verif/harness/pipe"
	"verif/harness/reg"
	"verif/harness/sreg"
	"verif/harness/stub"
)

func TestMain(m *testing.M) { engine.Main(m) }

// Case is a base strategy execution.
type Case struct {
	Plain bool       `json:"plain"`
	Cfg   reg.Config `json:"cfg"`
	Bars  gen.Bars   `json:"bars"`
}

// match compares actions with expectations; it returns the first contradiction.
func match(acts []strategy.Action, want []sreg.Expect) (string, int, int) {
	compared, exempt := 0, 0
	for i, w := range want {
		if i >= len(acts) {
			return fmt.Sprintf("no action for snapshot %d (only %d actions)", i, len(acts)), compared, exempt
		}
		if w.Exempt {
			exempt++
			continue
		}
		compared++
		if acts[i] != w.A {
			return fmt.Sprintf("snapshot %d: strategy says %d, the documented rule on the documented indicator says %d", i, acts[i], w.A), compared, exempt
		}
	}
	return "", compared, exempt
}

func prop(st sreg.Strat) engine.AnyProp {
	return engine.Prop[Case]{
		ID: "C06", Subject: st.Name,
		Gen: func(t *rapid.T) Case {
			c := Case{Cfg: st.GenConfig(t)}
			if st.Plain != nil && rapid.IntRange(0, 19).Draw(t, "plain") == 0 {
				c.Plain = true
			}
			w := st.Warm(st.BuildLeaf(c.Plain, c.Cfg))
			n := rapid.IntRange(w, w+70).Draw(t, "n")
			class := rapid.SampledFrom([]string{"walk", "walk", "spikes", "sawtooth", "ties", "zeros", "monotone", "decimal", "flatbars"}).Draw(t, "class")
			c.Bars = gen.GenBarsOf(t, n, class)
			return c
		},
		Check: func(c Case) engine.Outcome {
			var o engine.Outcome
			s := st.BuildLeaf(c.Plain, c.Cfg)
			n := c.Bars.Len()
			res := sreg.RunStrategy(s, stub.Snapshots(c.Bars), pipe.Opts{})
			if res.Verdict == "deadlock" {
				o.Failf("%s %v n=%d: %s: %s", st.Name, c.Cfg, n, res.Verdict, res.Detail)
				return o
			}
			acts := res.Outs[0]
			// The expected actions are worked out at the natural unit of quote (prices of 0.5 ..
			// 4000) and the strategy runs on the same bars times 2^Exp. Every documented rule is
			// homogeneous in the price unit and a power-of-two factor commutes exactly with every
			// floating-point operation, so the actions are the same - unless the code holds an
			// absolute threshold or tolerance in price units. (It also keeps the tie exemption,
			// which is an absolute 1e-9 at natural scale, from swallowing a micro-priced series.)
			f := sreg.FieldsOfBars(c.Bars.Unscaled())
			want := st.Rule(s, f)
			msg, compared, exempt := match(acts, want)
			if msg != "" {
				known := false
				if st.LateKey != "" {
					late := make([]sreg.Expect, len(want)+1)
					copy(late[1:], want)
					if m, _, _ := match(acts, late); m == "" {
						o.KnownAs(st.LateKey)
						known = true
					}
				}
				if !known && st.DefectRule != nil {
					if m, _, _ := match(acts, st.DefectRule(s, f)); m == "" {
						o.KnownAs(st.DefectKey)
						known = true
					}
				}
				if !known {
					o.Failf("%s %v plain=%v n=%d: %s (rule: %s)", st.Name, c.Cfg, c.Plain, n, msg, st.Doc)
					return o
				}
			}
			buys, sells, indep := 0, 0, 0
			for _, w := range want {
				if w.Exempt {
					continue
				}
				if w.A == strategy.Buy {
					buys++
				} else if w.A == strategy.Sell {
					sells++
				}
			}
			for i := 0; i < n; i++ {
				if f.H[i] != f.L[i] && f.H[i] != f.C[i] && f.L[i] != f.C[i] && f.O[i] != f.C[i] {
					indep++
				}
			}
			o.NonTrivial = buys >= 1 && sells >= 1
			o.Add("positions_compared", compared)
			o.Add("positions_exempt_tie", exempt)
			o.Add("expected_buys", buys)
			o.Add("expected_sells", sells)
			o.Add("bars", n)
			o.Add("bars_with_all_fields_distinct", indep)
			o.Class("series:" + c.Bars.Class)
			if c.Bars.Exp != 0 {
				o.Class(fmt.Sprintf("price_unit:2^%d", c.Bars.Exp))
			}
			o.Key = fmt.Sprint(c.Plain, c.Cfg, c.Bars.Close, c.Bars.High, c.Bars.Volume)
			return o
		},
	}
}

// fieldsProp: the field extraction every strategy starts with, on its own.
func fieldsProp() engine.AnyProp {
	type FCase struct {
		Bars gen.Bars `json:"bars"`
	}
	return engine.Prop[FCase]{ID: "C06", Subject: "SnapshotFields",
		Gen: func(t *rapid.T) FCase {
			return FCase{Bars: gen.GenBarsOf(t, rapid.IntRange(0, 12).Draw(t, "n"), "walk")}
		},
		Check: func(c FCase) engine.Outcome {
			var o engine.Outcome
			// the five fields are independent data: swap two of them on some bars (a close outside
			// the bar's range, a high below the low) - extraction is verbatim all the same
			bars := c.Bars
			for i := range bars.Close {
				switch i % 5 {
				case 1:
					bars.Close[i], bars.High[i] = bars.High[i]*1.5, bars.Close[i]
				case 3:
					bars.High[i], bars.Low[i] = bars.Low[i], bars.High[i]
				}
			}
			c.Bars = bars
			sn := stub.Snapshots(c.Bars)
			extract := map[string]func(<-chan *asset.Snapshot) <-chan float64{
				"open": asset.SnapshotsAsOpenings, "high": asset.SnapshotsAsHighs, "low": asset.SnapshotsAsLows,
				"close": asset.SnapshotsAsClosings, "volume": asset.SnapshotsAsVolumes,
			}
			for _, name := range []string{"open", "high", "low", "close", "volume"} {
				res := pipe.Run([][]*asset.Snapshot{sn}, pipe.Opts{}, func(cs []<-chan *asset.Snapshot) []<-chan float64 {
					return []<-chan float64{extract[name](cs[0])}
				})
				want := c.Bars.Field(name)
				if !res.OK() || len(res.Outs[0]) != len(want) {
					o.Failf("SnapshotsAs(%s) over %d snapshots: %s, %d values", name, len(sn), res.Verdict, len(res.Outs[0]))
					return o
				}
				for i := range want {
					if res.Outs[0][i] != want[i] {
						o.Failf("SnapshotsAs(%s): value %d is %v, the snapshot's %s is %v", name, i, res.Outs[0][i], name, want[i])
						return o
					}
				}
			}
			dates := pipe.Run([][]*asset.Snapshot{sn}, pipe.Opts{}, func(cs []<-chan *asset.Snapshot) []<-chan time.Time {
				return []<-chan time.Time{asset.SnapshotsAsDates(cs[0])}
			})
			for i := range sn {
				if !dates.OK() || len(dates.Outs[0]) != len(sn) || !dates.Outs[0][i].Equal(sn[i].Date) {
					o.Failf("SnapshotsAsDates over %d snapshots: %s, %v", len(sn), dates.Verdict, dates.Outs[0])
					return o
				}
			}
			distinct := 0
			for i := range sn {
				b := c.Bars
				if b.Open[i] != b.High[i] && b.High[i] != b.Low[i] && b.Low[i] != b.Close[i] && b.Open[i] != b.Close[i] && b.Open[i] != b.Low[i] && b.High[i] != b.Close[i] {
					distinct++
				}
			}
			o.NonTrivial = distinct >= 2
			o.Key = fmt.Sprint(c.Bars.Open, c.Bars.High, c.Bars.Low, c.Bars.Close, c.Bars.Volume)
			return o
		}}
}

func props() []engine.AnyProp {
	var ps []engine.AnyProp
	ps = append(ps, fieldsProp())
	for _, st := range sreg.Base() {
		if st.Rule != nil {
			ps = append(ps, prop(st))
		}
	}
	return ps
}

func TestC06(t *testing.T) { engine.RunAll(t, props(), false) }

func TestReplay(t *testing.T) { engine.Replay(t, "C06", props()) }
