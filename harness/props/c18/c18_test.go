// Package c18: unit independence - power-of-two rescaling of prices or volumes changes indicators
// exactly by their homogeneity degree (bit for bit) and changes no recommendation.
package c18

import (
	"fmt"
	"math"
	"testing"

	"github.com/cinar/indicator/v2/strategy"
	"pgregory.net/rapid"
	"verif/harness/engine"
	"verif/harness/gen"
	"verif/harness/pipe"
	"verif/harness/ref"
	"verif/harness/reg"
	"verif/harness/sreg"
	"verif/harness/stub"
)

func TestMain(m *testing.M) { engine.Main(m) }

func scaleBars(b gen.Bars, k int, volume bool) gen.Bars {
	f := math.Ldexp(1, k)
	sc := func(x []float64, on bool) []float64 {
		out := make([]float64, len(x))
		for i, v := range x {
			if on {
				out[i] = v * f
			} else {
				out[i] = v
			}
		}
		return out
	}
	return gen.Bars{Class: b.Class, Open: sc(b.Open, !volume), High: sc(b.High, !volume), Low: sc(b.Low, !volume), Close: sc(b.Close, !volume),
		X: sc(b.X, !volume), Y: sc(b.Y, !volume), Volume: sc(b.Volume, volume)}
}

// IndCase is an indicator case.
type IndCase struct {
	Cfg    reg.Config `json:"cfg"`
	Bars   gen.Bars   `json:"bars"`
	K      int        `json:"k"`
	Volume bool       `json:"volume"`
}

func genK(t *rapid.T) int {
	// mostly moderate factors; a third of the draws use large ones (a currency unit a billion
	// times larger or smaller), which is where absolute epsilons and cent-sized constants show
	k := rapid.IntRange(1, 8).Draw(t, "k")
	if rapid.IntRange(0, 2).Draw(t, "large") == 0 {
		k = rapid.IntRange(9, 30).Draw(t, "klarge")
	}
	if rapid.Bool().Draw(t, "neg") {
		return -k
	}
	return k
}

func usesVolume(ind reg.Ind) bool {
	for _, f := range ind.Inputs {
		if f == reg.Volume {
			return true
		}
	}
	return false
}

func usesPrice(ind reg.Ind) bool {
	for _, f := range ind.Inputs {
		if f != reg.Volume {
			return true
		}
	}
	return false
}

func indProp(ind reg.Ind) engine.AnyProp {
	return engine.Prop[IndCase]{
		ID: "C18", Subject: "indicator/" + ind.Name,
		Gen: func(t *rapid.T) IndCase {
			cfg := ind.GenConfig(t, 0)
			w := ind.Idle(cfg)
			n := rapid.IntRange(0, 2*w+30).Draw(t, "n")
			vol := usesVolume(ind) && (!usesPrice(ind) || rapid.Bool().Draw(t, "volume"))
			return IndCase{Cfg: cfg, Bars: gen.GenBars(t, n), K: genK(t), Volume: vol}
		},
		Check: func(c IndCase) engine.Outcome {
			var o engine.Outcome
			degs := ind.PriceDeg
			if c.Volume {
				degs = ind.VolDeg
			}
			base, w := ind.Run(c.Cfg, c.Bars, pipe.Opts{})
			sb := scaleBars(c.Bars, c.K, c.Volume)
			scaled, _ := ind.Run(c.Cfg, sb, pipe.Opts{})
			if !base.OK() || !scaled.OK() {
				o.Failf("%s %v: %s / %s", ind.Name, c.Cfg, base.Verdict, scaled.Verdict)
				return o
			}
			varying := false
			compared := 0
			var mismatch string
			for j := range base.Outs {
				if degs[j] == reg.NA {
					continue
				}
				if len(base.Outs[j]) != len(scaled.Outs[j]) {
					o.Failf("%s %v: rescaling changed the number of values of output %q", ind.Name, c.Cfg, ind.Outs[j])
					return o
				}
				f := math.Ldexp(1, c.K*degs[j])
				for i, v := range base.Outs[j] {
					want := v * f
					got := scaled.Outs[j][i]
					compared++
					if i > 0 && v != base.Outs[j][0] {
						varying = true
					}
					bothNaN := math.IsNaN(want) && math.IsNaN(got)
					if !bothNaN && math.Float64bits(want) != math.Float64bits(got) && !(want == 0 && got == 0) && mismatch == "" {
						unit := "prices"
						if c.Volume {
							unit = "volumes"
						}
						mismatch = fmt.Sprintf("%s %v: all %s x 2^%d: output %q value #%d becomes %v, want %v = %v x 2^(%d*%d) (homogeneity degree %d)", ind.Name, c.Cfg, unit, c.K, ind.Outs[j], i, got, want, v, c.K, degs[j], degs[j])
					}
				}
			}
			if mismatch != "" {
				known := false
				if ind.Defect != nil {
					// does the recorded defect model predict the rescaled output?
					model := ind.Defect.Model(c.Cfg, ind.RefIn(sb))
					known = true
					for j, rs := range model {
						for p := rs.At; p < rs.End(); p++ {
							k := p - w
							if k < 0 || k >= len(scaled.Outs[j]) {
								continue
							}
							if b, _ := rs.Get(p); !b.Agrees(scaled.Outs[j][k]) {
								known = false
							}
						}
					}
				}
				if known {
					o.KnownAs(ind.Defect.Key)
				} else {
					o.Failf("%s", mismatch)
					return o
				}
			}
			o.NonTrivial = c.Bars.Len() > w && varying
			if c.Volume {
				o.Class("volume_scaling")
			} else {
				o.Class("price_scaling")
			}
			o.Add("values_compared_bitwise", compared)
			o.Key = fmt.Sprint(c.Cfg, c.K, c.Volume, c.Bars.Close, c.Bars.X, c.Bars.Volume)
			return o
		},
	}
}

var _ = ref.Eps

// StratCase is a strategy case.
type StratCase struct {
	Tree   sreg.Tree `json:"tree"`
	Bars   gen.Bars  `json:"bars"`
	K      int       `json:"k"`
	Volume bool      `json:"volume"`
}

func stratCheck(c StratCase) engine.Outcome {
	var o engine.Outcome
	a := sreg.RunStrategy(c.Tree.Build(), stub.Snapshots(c.Bars), pipe.Opts{})
	b := sreg.RunStrategy(c.Tree.Build(), stub.Snapshots(scaleBars(c.Bars, c.K, c.Volume)), pipe.Opts{})
	if a.Verdict == "deadlock" || b.Verdict == "deadlock" {
		o.Failf("%s: %s / %s", c.Tree, a.Verdict, b.Verdict)
		return o
	}
	unit := "prices"
	if c.Volume {
		unit = "volumes"
	}
	if len(a.Outs[0]) != len(b.Outs[0]) {
		o.Failf("%s: multiplying all %s by 2^%d changes the number of actions from %d to %d", c.Tree, unit, c.K, len(a.Outs[0]), len(b.Outs[0]))
		return o
	}
	nonHold := 0
	for i := range a.Outs[0] {
		if a.Outs[0][i] != strategy.Hold {
			nonHold++
		}
		if a.Outs[0][i] != b.Outs[0][i] {
			o.Failf("%s: multiplying all %s by 2^%d changes the recommendation for snapshot %d from %d to %d", c.Tree, unit, c.K, i, a.Outs[0][i], b.Outs[0][i])
			return o
		}
	}
	o.NonTrivial = c.Bars.Len() > c.Tree.MaxWarm() && nonHold > 0
	o.Class(unit[:len(unit)-1] + "_scaling")
	o.Add("actions_compared", len(a.Outs[0]))
	o.Key = fmt.Sprint(c.Tree, c.K, c.Volume, c.Bars.Close, c.Bars.Volume)
	return o
}

func baseStratProp(st sreg.Strat) engine.AnyProp {
	return engine.Prop[StratCase]{
		ID: "C18", Subject: "strategy/" + st.Name,
		Gen: func(t *rapid.T) StratCase {
			tr := sreg.Tree{Op: "leaf", Leaf: st.Name, Cfg: st.GenConfig(t)}
			if st.Plain != nil && rapid.IntRange(0, 19).Draw(t, "plain") == 0 {
				tr.Plain = true
			}
			n := rapid.IntRange(0, 2*tr.Warm()+40).Draw(t, "n")
			return StratCase{Tree: tr, Bars: gen.GenBars(t, n), K: genK(t), Volume: rapid.Bool().Draw(t, "volume")}
		},
		Check: stratCheck,
	}
}

func treeProp() engine.AnyProp {
	names := sreg.OnTimeNames()
	return engine.Prop[StratCase]{
		ID: "C18", Subject: "strategy/decorated+compound",
		Gen: func(t *rapid.T) StratCase {
			tr := sreg.GenTree(t, names, 2)
			n := rapid.IntRange(0, 2*tr.MaxWarm()+40).Draw(t, "n")
			return StratCase{Tree: tr, Bars: gen.GenBars(t, n), K: genK(t), Volume: rapid.Bool().Draw(t, "volume")}
		},
		Check: stratCheck,
	}
}

func props() []engine.AnyProp {
	var ps []engine.AnyProp
	for _, ind := range reg.All() {
		ps = append(ps, indProp(ind))
	}
	for _, st := range sreg.Base() {
		ps = append(ps, baseStratProp(st))
	}
	for _, st := range sreg.Extra() {
		if st.TerminationOnly {
			continue
		}
		ps = append(ps, baseStratProp(st))
	}
	return append(ps, treeProp())
}

func TestC18(t *testing.T) { engine.RunAll(t, props(), false) }

func TestReplay(t *testing.T) { engine.Replay(t, "C18", props()) }
