// Package c16: every stream helper against a pure slice model, for all lengths (including empty
// and shorter than the parameter), parameters, unequal input lengths and input capacities.
package c16

import (
	"fmt"
	"math"
	"sync"
	"testing"
	"time"

	"github.com/cinar/indicator/v2/helper"
	"pgregory.net/rapid"
	"verif/harness/engine"
	"verif/harness/pipe"
)

func TestMain(m *testing.M) { engine.Main(m) }

// Case holds raw integer material; each helper converts it into its own domain.
type Case struct {
	Xs  []int  `json:"xs"`
	Ys  []int  `json:"ys"`
	Zs  []int  `json:"zs"`
	K   int    `json:"k"`  // count / before / size parameter
	K2  int    `json:"k2"` // second parameter (echo count, duplicate count, fill, ...)
	Cap int    `json:"cap"`
	FM  uint64 `json:"fm"`
	SM  uint64 `json:"sm"`
}

func genCase(t *rapid.T) Case {
	val := rapid.IntRange(-9, 9)
	c := Case{
		Xs:  rapid.SliceOfN(val, 0, 14).Draw(t, "xs"),
		K:   rapid.IntRange(0, 16).Draw(t, "k"),
		K2:  rapid.IntRange(0, 4).Draw(t, "k2"),
		Cap: rapid.IntRange(0, 4).Draw(t, "cap"),
	}
	// second and third inputs: same length in a third of the draws, independent otherwise
	if rapid.IntRange(0, 2).Draw(t, "eq") == 0 {
		c.Ys = rapid.SliceOfN(val, len(c.Xs), len(c.Xs)).Draw(t, "ys")
		c.Zs = rapid.SliceOfN(val, len(c.Xs), len(c.Xs)).Draw(t, "zs")
	} else {
		c.Ys = rapid.SliceOfN(val, 0, 14).Draw(t, "ys")
		c.Zs = rapid.SliceOfN(val, 0, 14).Draw(t, "zs")
	}
	if rapid.Bool().Draw(t, "paced") {
		c.FM, c.SM = rapid.Uint64().Draw(t, "fm"), rapid.Uint64().Draw(t, "sm")
	}
	return c
}

type num interface{ int | float64 }

func conv[T num](x int) T {
	var z T
	if _, ok := any(z).(float64); ok {
		return T(float64(x) * 0.25)
	}
	return T(x)
}

func convAll[T num](xs []int, nonzero bool) []T {
	out := make([]T, len(xs))
	for i, x := range xs {
		if nonzero && x == 0 {
			x = 7
		}
		out[i] = conv[T](x)
	}
	return out
}

func same[T num](a, b T) bool {
	fa, fb := float64(a), float64(b)
	if fa != fa || fb != fb {
		return fa != fa && fb != fb
	}
	return math.Float64bits(fa) == math.Float64bits(fb) || (fa == fb && any(a) == any(b))
}

func isFloat[T num]() bool {
	var z T
	_, ok := any(z).(float64)
	return ok
}

// spec describes one helper: how to build it on channels and what its slice model says.
type spec[T num] struct {
	name    string
	nin     int
	nonzero []bool // inputs that are used as divisors of integer division
	fullCap bool
	fix     func(c *Case) // move parameters into the helper's domain
	build   func(c Case, in []<-chan T) []<-chan T
	model   func(c Case, in [][]T) [][]T
	// nontrivial overrides the default rule
	nontrivial func(c Case, in [][]T) bool
}

func min(a, b int) int {
	if a < b {
		return a
	}
	return b
}

func one[T any](c <-chan T) []<-chan T { return []<-chan T{c} }

func specs[T num]() []spec[T] {
	fl := isFloat[T]()
	kge1 := func(c *Case) {
		if c.K < 1 {
			c.K = 1
		}
	}
	ap := func(f func(T) T) func(c Case, in [][]T) [][]T {
		return func(c Case, in [][]T) [][]T {
			out := make([]T, len(in[0]))
			for i, x := range in[0] {
				out[i] = f(x)
			}
			return [][]T{out}
		}
	}
	zip := func(f func(a, b T) T) func(c Case, in [][]T) [][]T {
		return func(c Case, in [][]T) [][]T {
			n := min(len(in[0]), len(in[1]))
			out := make([]T, n)
			for i := 0; i < n; i++ {
				out[i] = f(in[0][i], in[1][i])
			}
			return [][]T{out}
		}
	}
	change := func(xs []T, k int) []T {
		var out []T
		for i := k; i < len(xs); i++ {
			out = append(out, xs[i]-xs[i-k])
		}
		return out
	}
	ratio := func(xs []T, k int) []T {
		var out []T
		for i := k; i < len(xs); i++ {
			out = append(out, (xs[i]-xs[i-k])/xs[i-k])
		}
		return out
	}
	// the scalar parameter of the helpers that take one (start of Count, fill of Shift, operand of
	// IncrementBy / MultiplyBy ...): whole for the integer types, and for the float types a
	// non-dyadic fraction (0.1, 0.3 ...) in half of the cases - a rewrite that is only exact on
	// whole numbers shows there
	par := func(c Case) T {
		v := conv[T](c.K2 + 1)
		var z T
		switch any(z).(type) {
		case float64, float32:
			if c.K2%2 == 1 {
				v = v / conv[T](10)
			}
		}
		return v
	}
	ss := []spec[T]{
		{name: "Map", nin: 1,
			build: func(c Case, in []<-chan T) []<-chan T { return one(helper.Map(in[0], func(x T) T { return 2*x + 1 })) },
			model: ap(func(x T) T { return 2*x + 1 })},
		{name: "Apply", nin: 1,
			build: func(c Case, in []<-chan T) []<-chan T {
				return one(helper.Apply(in[0], func(x T) T { return x*x - 1 }))
			},
			model: ap(func(x T) T { return x*x - 1 })},
		{name: "Filter", nin: 1,
			build: func(c Case, in []<-chan T) []<-chan T {
				return one(helper.Filter(in[0], func(x T) bool { return x > 0 }))
			},
			model: func(c Case, in [][]T) [][]T {
				var out []T
				for _, x := range in[0] {
					if x > 0 {
						out = append(out, x)
					}
				}
				return [][]T{out}
			}},
		{name: "Skip", nin: 1,
			build: func(c Case, in []<-chan T) []<-chan T { return one(helper.Skip(in[0], c.K)) },
			model: func(c Case, in [][]T) [][]T { return [][]T{in[0][min(c.K, len(in[0])):]} }},
		{name: "Head", nin: 1, fullCap: true,
			build: func(c Case, in []<-chan T) []<-chan T { return one(helper.Head(in[0], c.K)) },
			model: func(c Case, in [][]T) [][]T { return [][]T{in[0][:min(c.K, len(in[0]))]} }},
		{name: "First", nin: 1,
			build: func(c Case, in []<-chan T) []<-chan T { return one(helper.First(in[0], c.K)) },
			model: func(c Case, in [][]T) [][]T { return [][]T{in[0][:min(c.K, len(in[0]))]} }},
		{name: "Last", nin: 1, fix: kge1,
			build: func(c Case, in []<-chan T) []<-chan T { return one(helper.Last(in[0], c.K)) },
			model: func(c Case, in [][]T) [][]T {
				lo := len(in[0]) - c.K
				if lo < 0 {
					lo = 0
				}
				return [][]T{in[0][lo:]}
			}},
		{name: "Shift", nin: 1,
			build: func(c Case, in []<-chan T) []<-chan T { return one(helper.Shift(in[0], c.K, par(c))) },
			model: func(c Case, in [][]T) [][]T {
				out := make([]T, 0, c.K+len(in[0]))
				for i := 0; i < c.K; i++ {
					out = append(out, par(c))
				}
				return [][]T{append(out, in[0]...)}
			}},
		{name: "Buffered", nin: 1,
			build: func(c Case, in []<-chan T) []<-chan T { return one(helper.Buffered(in[0], c.K)) },
			model: func(c Case, in [][]T) [][]T { return [][]T{in[0]} }},
		{name: "Pipe", nin: 1,
			build: func(c Case, in []<-chan T) []<-chan T {
				t := make(chan T, c.K)
				go helper.Pipe(in[0], t)
				return one[T](t)
			},
			model: func(c Case, in [][]T) [][]T { return [][]T{in[0]} }},
		{name: "Duplicate", nin: 1,
			build: func(c Case, in []<-chan T) []<-chan T { return helper.Duplicate(in[0], c.K2+1) },
			model: func(c Case, in [][]T) [][]T {
				out := make([][]T, c.K2+1)
				for i := range out {
					out[i] = in[0]
				}
				return out
			},
			nontrivial: func(c Case, in [][]T) bool { return c.K2 >= 1 }},
		{name: "Count", nin: 1,
			build: func(c Case, in []<-chan T) []<-chan T { return one(helper.Count(par(c), in[0])) },
			model: func(c Case, in [][]T) [][]T {
				out := make([]T, len(in[0]))
				v := par(c)
				for i := range out {
					out[i] = v
					v++
				}
				return [][]T{out}
			}},
		{name: "Seq", nin: 0,
			build: func(c Case, in []<-chan T) []<-chan T {
				return one(helper.Seq(conv[T](c.K-8), conv[T](c.K2*3), par(c)))
			},
			model: func(c Case, in [][]T) [][]T {
				var out []T
				for v := conv[T](c.K - 8); v < conv[T](c.K2*3); v += par(c) {
					out = append(out, v)
				}
				return [][]T{out}
			},
			nontrivial: func(c Case, in [][]T) bool { return c.K-8 >= c.K2*3 || c.K2 > 0 }},
		{name: "Since", nin: 1,
			fix: func(c *Case) { // runs need ties: fold the values onto three levels
				for i := range c.Xs {
					c.Xs[i] = ((c.Xs[i] % 3) + 3) % 3
				}
			},
			build: func(c Case, in []<-chan T) []<-chan T { return one(helper.Since[T, T](in[0])) },
			model: func(c Case, in [][]T) [][]T {
				out := make([]T, len(in[0]))
				var run T
				for i := range in[0] {
					if i > 0 && in[0][i] == in[0][i-1] {
						run++
					} else {
						run = 0
					}
					out[i] = run
				}
				return [][]T{out}
			},
			nontrivial: func(c Case, in [][]T) bool {
				for i := 2; i < len(in[0]); i++ {
					if in[0][i] == in[0][i-1] && in[0][i-1] == in[0][i-2] {
						return true
					}
				}
				return len(in[0]) == 0
			}},
		{name: "Echo", nin: 1,
			fix: func(c *Case) { // the memory must not exceed the input (the helper's comment presupposes it)
				if len(c.Xs) == 0 {
					c.Xs = []int{c.K2}
				}
				c.K = 1 + c.K%len(c.Xs)
			},
			build: func(c Case, in []<-chan T) []<-chan T { return one(helper.Echo(in[0], c.K, c.K2)) },
			model: func(c Case, in [][]T) [][]T {
				out := append([]T{}, in[0]...)
				for r := 0; r < c.K2; r++ {
					out = append(out, in[0][len(in[0])-c.K:]...)
				}
				return [][]T{out}
			},
			nontrivial: func(c Case, in [][]T) bool { return c.K2 >= 1 && (c.K == len(in[0]) || c.K > 1) }},
		{name: "Change", nin: 1,
			build: func(c Case, in []<-chan T) []<-chan T { return one(helper.Change(in[0], c.K)) },
			model: func(c Case, in [][]T) [][]T { return [][]T{change(in[0], c.K)} }},
		{name: "ChangeRatio", nin: 1, nonzero: []bool{!fl},
			build: func(c Case, in []<-chan T) []<-chan T { return one(helper.ChangeRatio(in[0], c.K)) },
			model: func(c Case, in [][]T) [][]T { return [][]T{ratio(in[0], c.K)} }},
		{name: "ChangePercent", nin: 1, nonzero: []bool{!fl},
			build: func(c Case, in []<-chan T) []<-chan T { return one(helper.ChangePercent(in[0], c.K)) },
			model: func(c Case, in [][]T) [][]T {
				r := ratio(in[0], c.K)
				for i := range r {
					r[i] *= 100
				}
				return [][]T{r}
			}},
		{name: "Operate", nin: 2,
			build: func(c Case, in []<-chan T) []<-chan T {
				return one(helper.Operate(in[0], in[1], func(a, b T) T { return a - 2*b }))
			},
			model: zip(func(a, b T) T { return a - 2*b })},
		{name: "Operate3", nin: 3,
			build: func(c Case, in []<-chan T) []<-chan T {
				return one(helper.Operate3(in[0], in[1], in[2], func(a, b, d T) T { return a + 2*b - 3*d }))
			},
			model: func(c Case, in [][]T) [][]T {
				n := min(len(in[0]), min(len(in[1]), len(in[2])))
				out := make([]T, n)
				for i := range out {
					out[i] = in[0][i] + 2*in[1][i] - 3*in[2][i]
				}
				return [][]T{out}
			}},
		{name: "Add", nin: 2, build: func(c Case, in []<-chan T) []<-chan T { return one(helper.Add(in[0], in[1])) },
			model: zip(func(a, b T) T { return a + b })},
		{name: "Subtract", nin: 2, build: func(c Case, in []<-chan T) []<-chan T { return one(helper.Subtract(in[0], in[1])) },
			model: zip(func(a, b T) T { return a - b })},
		{name: "Multiply", nin: 2, build: func(c Case, in []<-chan T) []<-chan T { return one(helper.Multiply(in[0], in[1])) },
			model: zip(func(a, b T) T { return a * b })},
		{name: "Divide", nin: 2, nonzero: []bool{false, !fl},
			build: func(c Case, in []<-chan T) []<-chan T { return one(helper.Divide(in[0], in[1])) },
			model: zip(func(a, b T) T { return a / b })},
		{name: "IncrementBy", nin: 1, build: func(c Case, in []<-chan T) []<-chan T { return one(helper.IncrementBy(in[0], par(c))) },
			model: func(c Case, in [][]T) [][]T { return ap(func(x T) T { return x + par(c) })(c, in) }},
		{name: "DecrementBy", nin: 1, build: func(c Case, in []<-chan T) []<-chan T { return one(helper.DecrementBy(in[0], par(c))) },
			model: func(c Case, in [][]T) [][]T { return ap(func(x T) T { return x - par(c) })(c, in) }},
		{name: "MultiplyBy", nin: 1, build: func(c Case, in []<-chan T) []<-chan T { return one(helper.MultiplyBy(in[0], par(c))) },
			model: func(c Case, in [][]T) [][]T { return ap(func(x T) T { return x * par(c) })(c, in) }},
		{name: "DivideBy", nin: 1, build: func(c Case, in []<-chan T) []<-chan T { return one(helper.DivideBy(in[0], par(c))) },
			model: func(c Case, in [][]T) [][]T { return ap(func(x T) T { return x / par(c) })(c, in) }},
		{name: "Abs", nin: 1, build: func(c Case, in []<-chan T) []<-chan T { return one(helper.Abs(in[0])) },
			model: ap(func(x T) T {
				if x < 0 {
					return -x
				}
				return x
			})},
		{name: "Sign", nin: 1, build: func(c Case, in []<-chan T) []<-chan T { return one(helper.Sign(in[0])) },
			model: ap(func(x T) T {
				switch {
				case x > 0:
					return 1
				case x < 0:
					return T(0) - 1
				}
				return 0
			})},
		{name: "KeepPositives", nin: 1, build: func(c Case, in []<-chan T) []<-chan T { return one(helper.KeepPositives(in[0])) },
			model: ap(func(x T) T {
				if x > 0 {
					return x
				}
				return 0
			})},
		{name: "KeepNegatives", nin: 1, build: func(c Case, in []<-chan T) []<-chan T { return one(helper.KeepNegatives(in[0])) },
			model: ap(func(x T) T {
				if x < 0 {
					return x
				}
				return 0
			})},
		{name: "Sqrt", nin: 1,
			fix: func(c *Case) {
				for i := range c.Xs {
					if c.Xs[i] < 0 {
						c.Xs[i] = -c.Xs[i]
					}
				}
			},
			build: func(c Case, in []<-chan T) []<-chan T { return one(helper.Sqrt(in[0])) },
			model: ap(func(x T) T { return T(math.Sqrt(float64(x))) })},
		{name: "Pow", nin: 1, build: func(c Case, in []<-chan T) []<-chan T { return one(helper.Pow(in[0], conv[T](c.K2))) },
			model: func(c Case, in [][]T) [][]T {
				return ap(func(x T) T { return T(math.Pow(float64(x), float64(conv[T](c.K2)))) })(c, in)
			}},
		{name: "RoundDigits", nin: 1, build: func(c Case, in []<-chan T) []<-chan T { return one(helper.RoundDigits(in[0], c.K2%3)) },
			model: func(c Case, in [][]T) [][]T {
				m := math.Pow(10, float64(c.K2%3))
				return ap(func(x T) T { return T(math.Round(float64(x)*m) / m) })(c, in)
			}},
		{name: "MapWithPrevious", nin: 1,
			build: func(c Case, in []<-chan T) []<-chan T {
				return one(helper.MapWithPrevious(in[0], func(p, x T) T { return 2*p - x }, par(c)))
			},
			model: func(c Case, in [][]T) [][]T {
				out := make([]T, len(in[0]))
				p := par(c)
				for i, x := range in[0] {
					p = 2*p - x
					out[i] = p
				}
				return [][]T{out}
			}},
		{name: "SyncPeriod", nin: 1,
			build: func(c Case, in []<-chan T) []<-chan T {
				common := helper.CommonPeriod(c.K, c.K2, 3)
				return one(helper.SyncPeriod(common, c.K2, in[0]))
			},
			model: func(c Case, in [][]T) [][]T {
				common := c.K
				if c.K2 > common {
					common = c.K2
				}
				if 3 > common {
					common = 3
				}
				return [][]T{in[0][min(common-c.K2, len(in[0])):]}
			}},
		{name: "Waitable", nin: 1,
			build: func(c Case, in []<-chan T) []<-chan T {
				wg := &sync.WaitGroup{}
				w := helper.Waitable(wg, in[0])
				sig := make(chan T)
				go func() { wg.Wait(); close(sig) }()
				return []<-chan T{w, sig}
			},
			model: func(c Case, in [][]T) [][]T { return [][]T{in[0], nil} }},
		{name: "SliceToChan+ChanToSlice", nin: 1,
			build: func(c Case, in []<-chan T) []<-chan T {
				out := make(chan T)
				go func() { helper.Pipe(helper.SliceToChan(helper.ChanToSlice(in[0])), out) }()
				return one[T](out)
			},
			model: func(c Case, in [][]T) [][]T { return [][]T{in[0]} }},
		{name: "Drain", nin: 1,
			build: func(c Case, in []<-chan T) []<-chan T {
				out := make(chan T)
				go func() { helper.Drain(in[0]); close(out) }()
				return one[T](out)
			},
			model: func(c Case, in [][]T) [][]T { return [][]T{nil} }},
	}
	return ss
}

func helperProp[T num](tn string, s spec[T]) engine.AnyProp {
	return engine.Prop[Case]{
		ID: "C16", Subject: s.name + "/" + tn,
		Gen: func(t *rapid.T) Case {
			c := genCase(t)
			if s.fix != nil {
				s.fix(&c)
			}
			return c
		},
		Check: func(c Case) engine.Outcome {
			var o engine.Outcome
			raw := [][]int{c.Xs, c.Ys, c.Zs}[:s.nin]
			in := make([][]T, s.nin)
			for i := range in {
				in[i] = convAll[T](raw[i], i < len(s.nonzero) && s.nonzero[i])
			}
			want := s.model(c, in)
			res := pipe.Run(in, pipe.Opts{Cap: c.Cap, FeedMask: c.FM, SinkMask: c.SM, FullCap: s.fullCap},
				func(cs []<-chan T) []<-chan T { return s.build(c, cs) })
			if !res.OK() {
				o.Failf("%s: %s: %s (inputs consumed %v of %v)", s.name, res.Verdict, res.Detail, res.Consumed, lens(in))
				return o
			}
			for i := range in {
				if !res.FeedDone[i] {
					o.Failf("%s: input %d not consumed to the end (%d of %d)", s.name, i, res.Consumed[i], len(in[i]))
					return o
				}
			}
			if len(res.Outs) != len(want) {
				o.Failf("%s: %d outputs, model has %d", s.name, len(res.Outs), len(want))
				return o
			}
			for i := range want {
				if len(res.Outs[i]) != len(want[i]) {
					o.Failf("%s k=%d k2=%d: output %d has %d values %v, slice model %d values %v (inputs %v)", s.name, c.K, c.K2, i, len(res.Outs[i]), res.Outs[i], len(want[i]), want[i], in)
					return o
				}
				for j := range want[i] {
					if !same(res.Outs[i][j], want[i][j]) {
						o.Failf("%s k=%d k2=%d: output %d position %d is %v, slice model %v (inputs %v)", s.name, c.K, c.K2, i, j, res.Outs[i][j], want[i][j], in)
						return o
					}
				}
			}
			// classes
			empty, short, unequal := false, false, false
			for i := range in {
				if len(in[i]) == 0 {
					empty = true
				}
				if c.K >= len(in[i]) {
					short = true
				}
				if len(in[i]) != len(in[0]) {
					unequal = true
				}
			}
			if empty {
				o.Class("empty_input")
			}
			if short {
				o.Class("parameter>=length")
			}
			if unequal {
				o.Class("unequal_lengths")
			}
			if c.Cap > 0 {
				o.Class("buffered_inputs")
			}
			if c.FM|c.SM != 0 {
				o.Class("paced")
			}
			if s.nontrivial != nil {
				o.NonTrivial = s.nontrivial(c, in)
			} else {
				o.NonTrivial = empty || short || unequal
			}
			o.Key = fmt.Sprint(in, c.K, c.K2, c.Cap)
			return o
		},
	}
}

func lens[T any](x [][]T) []int {
	out := make([]int, len(x))
	for i := range x {
		out[i] = len(x[i])
	}
	return out
}

// ---- helpers that are not numeric streams ----

type row struct {
	A int
	B float64
	C string
}

type miscCase struct {
	Xs  []int `json:"xs"`
	Vs  []int `json:"vs"` // values for Gcd/Lcm
	D1  int   `json:"d1"` // hours offsets for DaysBetween
	D2  int   `json:"d2"`
	Cap int   `json:"cap"`
}

func gcd(a, b int) int {
	for b != 0 {
		a, b = b, a%b
	}
	return a
}

func miscProps() []engine.AnyProp {
	gen := func(t *rapid.T) miscCase {
		return miscCase{
			Xs:  rapid.SliceOfN(rapid.IntRange(-50, 50), 0, 12).Draw(t, "xs"),
			Vs:  rapid.SliceOfN(rapid.IntRange(1, 60), 1, 5).Draw(t, "vs"),
			D1:  rapid.IntRange(0, 24*400).Draw(t, "d1"),
			D2:  rapid.IntRange(0, 24*400).Draw(t, "d2"),
			Cap: rapid.IntRange(0, 3).Draw(t, "cap"),
		}
	}
	field := engine.Prop[miscCase]{ID: "C16", Subject: "Field", Gen: gen, Check: func(c miscCase) engine.Outcome {
		var o engine.Outcome
		rows := make([]*row, len(c.Xs))
		for i, x := range c.Xs {
			rows[i] = &row{A: x, B: float64(x) / 4, C: fmt.Sprint("s", x)}
		}
		var ferr error
		res := pipe.Run([][]*row{rows, rows, rows}, pipe.Opts{Cap: c.Cap}, func(cs []<-chan *row) []<-chan any {
			a, e1 := helper.Field[int](cs[0], "A")
			b, e2 := helper.Field[float64](cs[1], "B")
			s, e3 := helper.Field[string](cs[2], "C")
			for _, e := range []error{e1, e2, e3} {
				if e != nil {
					ferr = e
				}
			}
			return []<-chan any{helper.Map(a, func(x int) any { return x }), helper.Map(b, func(x float64) any { return x }), helper.Map(s, func(x string) any { return x })}
		})
		if ferr != nil {
			o.Failf("Field returned error %v", ferr)
			return o
		}
		if !res.OK() {
			o.Failf("Field: %s %s", res.Verdict, res.Detail)
			return o
		}
		for i, r := range rows {
			if len(res.Outs[0]) != len(rows) || res.Outs[0][i] != any(r.A) || res.Outs[1][i] != any(r.B) || res.Outs[2][i] != any(r.C) {
				o.Failf("Field: row %d mismatch: %v", i, res.Outs)
				return o
			}
		}
		if _, err := helper.Field[int](helper.SliceToChan([]*row{}), "Nope"); err == nil {
			o.Failf("Field of an unknown name returned no error")
		}
		o.NonTrivial = len(rows) != 1
		o.Key = fmt.Sprint(c.Xs, c.Cap)
		return o
	}}
	arith := engine.Prop[miscCase]{ID: "C16", Subject: "Gcd/Lcm/DaysBetween/RoundDigit", Gen: gen, Check: func(c miscCase) engine.Outcome {
		var o engine.Outcome
		g, l := c.Vs[0], c.Vs[0]
		for _, v := range c.Vs[1:] {
			g = gcd(g, v)
			l = l / gcd(l, v) * v
		}
		if got := helper.Gcd(c.Vs...); got != g {
			o.Failf("Gcd(%v) = %d, want %d", c.Vs, got, g)
		}
		if got := helper.Lcm(c.Vs...); got != l {
			o.Failf("Lcm(%v) = %d, want %d", c.Vs, got, l)
		}
		base := time.Date(2020, 1, 1, 0, 0, 0, 0, time.UTC)
		from, to := base.Add(time.Duration(c.D1)*time.Hour), base.Add(time.Duration(c.D2)*time.Hour)
		want := int(math.Floor(float64(c.D2-c.D1) / 24))
		if got := helper.DaysBetween(from, to); got != want {
			o.Failf("DaysBetween(%v, %v) = %d, want %d", from, to, got, want)
		}
		for _, x := range c.Xs {
			v := float64(x) / 8
			for d := 0; d <= 3; d++ {
				m := math.Pow(10, float64(d))
				if got := helper.RoundDigit(v, d); got != math.Round(v*m)/m {
					o.Failf("RoundDigit(%v,%d) = %v", v, d, got)
				}
			}
		}
		o.NonTrivial = len(c.Vs) >= 2
		o.Key = fmt.Sprint(c.Vs, c.D1, c.D2, c.Xs)
		return o
	}}
	return []engine.AnyProp{field, arith}
}

func props() []engine.AnyProp {
	var ps []engine.AnyProp
	for _, s := range specs[int]() {
		ps = append(ps, helperProp("int", s))
	}
	for _, s := range specs[float64]() {
		ps = append(ps, helperProp("float64", s))
	}
	return append(ps, miscProps()...)
}

func TestC16(t *testing.T) { engine.RunAll(t, props(), false) }

func TestReplay(t *testing.T) { engine.Replay(t, "C16", props()) }
