// Package c15: bounded indicators stay in range; bands stay ordered.
package c15

import (
	"fmt"
	"math"
	"testing"

	"github.com/cinar/indicator/v2/helper"
	"github.com/cinar/indicator/v2/volatility"
	"pgregory.net/rapid"
	"verif/harness/engine"
	"verif/harness/gen"
	"verif/harness/pipe"
	"verif/harness/ref"
	"verif/harness/reg"
)

func TestMain(m *testing.M) { engine.Main(m) }

// Case is one execution on valid OHLCV bars.
type Case struct {
	Cfg  reg.Config `json:"cfg"`
	Bars gen.Bars   `json:"bars"`
}

// claim describes what the statement asserts about one registry entry.
type claim struct {
	ind     string
	lo, hi  float64 // range of every output (NaN = no range claim)
	ordered bool    // outputs are upper >= middle >= lower
	nonNeg  bool
	// extreme: "max" / "min": value <= moving max / >= moving min of the same input
	extreme string
	// byRef: positions whose reference value is undefined (zero defining denominator) are exempt
	byRef bool
}

var nan = math.NaN()

var claims = []claim{
	{ind: "Rsi", lo: 0, hi: 100, byRef: true},
	{ind: "Mfi", lo: 0, hi: 100, byRef: true},
	{ind: "StochasticOscillator", lo: 0, hi: 100, byRef: true},
	{ind: "Aroon", lo: 0, hi: 100},
	{ind: "WilliamsR", lo: -100, hi: 0, byRef: true},
	{ind: "StochasticRsi", lo: 0, hi: 1, byRef: true},
	{ind: "Mfm", lo: -1, hi: 1, byRef: true},
	{ind: "Cmf", lo: -1, hi: 1, byRef: true},
	{ind: "Bop", lo: -1, hi: 1, byRef: true},
	{ind: "BollingerBands", lo: nan, hi: nan, ordered: true},
	{ind: "KeltnerChannel", lo: nan, hi: nan, ordered: true},
	{ind: "DonchianChannel", lo: nan, hi: nan, ordered: true},
	{ind: "AccelerationBands", lo: nan, hi: nan, ordered: true},
	{ind: "EnvelopeSma", lo: nan, hi: nan, ordered: true},
	{ind: "EnvelopeEma", lo: nan, hi: nan, ordered: true},
	{ind: "MovingMax", lo: nan, hi: nan, extreme: "max"},
	{ind: "MovingMin", lo: nan, hi: nan, extreme: "min"},
	{ind: "MovingStd", lo: nan, hi: nan, nonNeg: true},
	{ind: "Atr", lo: nan, hi: nan, nonNeg: true},
	{ind: "AtrEma", lo: nan, hi: nan, nonNeg: true},
	{ind: "UlcerIndex", lo: nan, hi: nan, nonNeg: true},
	{ind: "BollingerBandWidth", lo: nan, hi: nan, nonNeg: true, byRef: true},
}

// asPrice maps the free numeric input of single-series indicators to the closing price: the
// statement quantifies over valid OHLCV series.
func slices(ind reg.Ind, b gen.Bars) ([][]float64, reg.In) {
	ins := make([][]float64, len(ind.Inputs))
	in := reg.In{}
	for i, f := range ind.Inputs {
		v := b.Field(f)
		if f == reg.X {
			v = b.Close
		}
		ins[i] = v
		in[f] = ref.Lift(v)
	}
	return ins, in
}

func prop(cl claim) engine.AnyProp {
	ind, ok := reg.ByName(cl.ind)
	if !ok {
		panic("no registry entry " + cl.ind)
	}
	return engine.Prop[Case]{
		ID: "C15", Subject: ind.Name,
		Gen: func(t *rapid.T) Case {
			cfg := ind.GenConfig(t, 0)
			if len(cfg.F) > 0 && cl.ordered {
				// envelope percentage in [0, 100)
				if cfg.F[0] >= 100 {
					cfg.F[0] = 99.5
				}
			}
			w := ind.Idle(cfg)
			n := rapid.IntRange(0, 3*w+40).Draw(t, "n")
			class := rapid.SampledFrom([]string{"walk", "flat", "monotone", "sawtooth", "ties", "zeros", "spikes", "decimal", "flatbars"}).Draw(t, "class")
			if vl := gen.VeryLong(t); vl > 0 {
				n = vl
			}
			if engine.OncePerRun("C15-very-long/" + ind.Name) {
				n = 1<<16 + 24 // every claimed indicator once per run
			}
			b := gen.GenBarsOf(t, n, class)
			if rapid.IntRange(0, 7).Draw(t, "narrow_bars") == 3 {
				b = gen.Narrow(t, b)
			}
			return Case{Cfg: cfg, Bars: b}
		},
		Check: func(c Case) engine.Outcome {
			var o engine.Outcome
			if !c.Bars.Valid() {
				o.Failf("harness error: generated bars are not valid OHLCV")
				return o
			}
			ins, in := slices(ind, c.Bars)
			res, w := ind.RunSlices(c.Cfg, ins, pipe.Opts{})
			if !res.OK() {
				o.Failf("%s %v: %s: %s", ind.Name, c.Cfg, res.Verdict, res.Detail)
				return o
			}
			var refs []ref.S
			if cl.byRef {
				refs = ind.Ref(c.Cfg, in)
			}
			scale := 1.0
			for _, v := range c.Bars.High {
				if v > scale {
					scale = v
				}
			}
			tol := 1e-9 * scale
			near, checked, exempt := 0, 0, 0
			var bad string
			exemptAt := func(j, k int) bool {
				if refs == nil {
					return false
				}
				b, ok := refs[j].Get(k + w)
				return ok && b.IsBad()
			}
			for j, out := range res.Outs {
				for k, v := range out {
					if exemptAt(j, k) {
						exempt++
						continue
					}
					if math.IsNaN(v) || math.IsInf(v, 0) {
						// a non-finite value is only excused by a zero defining denominator
						if bad == "" {
							bad = fmt.Sprintf("output %q value #%d (position %d) is %v although the documented formula is defined there", ind.Outs[j], k, k+w, v)
						}
						continue
					}
					checked++
					if !math.IsNaN(cl.lo) {
						rtol := 1e-9 * math.Max(1, math.Abs(cl.hi-cl.lo))
						if refs != nil {
							// "up to rounding": where the error analysis of the documented formula
							// (running sums over non-dyadic values, then a ratio) gives a wider bound
							// at this position, that bound is the rounding allowance
							if b, ok := refs[j].Get(k + w); ok && !b.IsBad() && ref.Slack*b.E > rtol {
								rtol = ref.Slack * b.E
								o.Add("range_checks_with_the_reference_error_bound", 1)
							}
						}
						if (v < cl.lo-rtol || v > cl.hi+rtol) && bad == "" {
							bad = fmt.Sprintf("output %q value #%d (position %d) = %v lies outside [%v, %v]", ind.Outs[j], k, k+w, v, cl.lo, cl.hi)
						}
						if math.Abs(v-cl.lo) <= 0.01*(cl.hi-cl.lo) || math.Abs(v-cl.hi) <= 0.01*(cl.hi-cl.lo) {
							near++
						}
					}
					if cl.nonNeg {
						if v < -tol && bad == "" {
							bad = fmt.Sprintf("output %q value #%d = %v is negative", ind.Outs[j], k, v)
						}
						if v <= tol {
							near++
						}
					}
					if cl.extreme != "" {
						x := ins[0][k+w]
						if cl.extreme == "max" && v < x-tol && bad == "" {
							bad = fmt.Sprintf("moving max #%d = %v is below the current value %v", k, v, x)
						}
						if cl.extreme == "min" && v > x+tol && bad == "" {
							bad = fmt.Sprintf("moving min #%d = %v is above the current value %v", k, v, x)
						}
						if v == x {
							near++
						}
					}
				}
			}
			if cl.ordered && len(res.Outs) == 3 {
				u, m, l := res.Outs[0], res.Outs[1], res.Outs[2]
				for k := range u {
					if k >= len(m) || k >= len(l) {
						break
					}
					if math.IsNaN(u[k]+m[k]+l[k]) || math.IsInf(u[k]+m[k]+l[k], 0) {
						continue
					}
					if (u[k] < m[k]-tol || m[k] < l[k]-tol) && bad == "" {
						bad = fmt.Sprintf("bands out of order at value #%d: upper %v, middle %v, lower %v", k, u[k], m[k], l[k])
					}
					if u[k]-l[k] <= tol {
						near++
					}
				}
			}
			if bad != "" {
				known := false
				if ind.Defect != nil {
					known = true
					for j, rs := range ind.Defect.Model(c.Cfg, in) {
						for p := rs.At; p < rs.End(); p++ {
							if k := p - w; k >= 0 && k < len(res.Outs[j]) {
								if b, _ := rs.Get(p); !b.Agrees(res.Outs[j][k]) {
									known = false
								}
							}
						}
					}
				}
				if known {
					o.KnownAs(ind.Defect.Key)
				} else {
					o.Failf("%s %v n=%d (%s bars): %s", ind.Name, c.Cfg, c.Bars.Len(), c.Bars.Class, bad)
					return o
				}
			}
			ties := c.Bars.Class == "ties" || c.Bars.Class == "flat" || c.Bars.Class == "flatbars"
			o.NonTrivial = checked > 0 && (near > 0 || ties)
			o.Add("values_checked", checked)
			o.Add("values_exempt", exempt)
			o.Add("values_at_or_near_a_bound", near)
			o.Class("series:" + c.Bars.Class)
			o.Key = fmt.Sprint(c.Cfg, c.Bars.Close, c.Bars.High, c.Bars.Low, c.Bars.Volume)
			return o
		},
	}
}

// ---- integer price series (cents, ticks): the band ordering that involves no rounding at all ----

// IntCase is a positive integer price series and a period.
type IntCase[T helper.Integer] struct {
	Period int `json:"period"`
	Values []T `json:"values"`
}

func donchianIntProp[T helper.Integer](name string, top int64) engine.AnyProp {
	return engine.Prop[IntCase[T]]{
		ID: "C15", Subject: "DonchianChannel/" + name,
		Gen: func(t *rapid.T) IntCase[T] {
			c := IntCase[T]{Period: rapid.IntRange(1, 6).Draw(t, "period")}
			n := rapid.IntRange(0, 30).Draw(t, "n")
			if rapid.IntRange(0, 15).Draw(t, "quiet") == 7 {
				// a long window over a quiet market: hundreds of equal prices at once
				c.Period = rapid.SampledFrom([]int{100, 130, 200, 300}).Draw(t, "long_period")
				n = c.Period + rapid.IntRange(0, 60).Draw(t, "extra")
			}
			cur := rapid.Int64Range(1, top).Draw(t, "v0")
			for i := 0; i < n; i++ {
				// flat runs, small steps, odd and even values
				if rapid.IntRange(0, 2).Draw(t, "move") == 0 && (c.Period < 100 || rapid.IntRange(0, 5).Draw(t, "rare_move") == 3) {
					cur += rapid.Int64Range(-3, 3).Draw(t, "d")
				}
				if cur < 1 {
					cur = 1
				}
				if cur > top {
					cur = top
				}
				c.Values = append(c.Values, T(cur))
			}
			return c
		},
		Check: func(c IntCase[T]) engine.Outcome {
			var o engine.Outcome
			res := pipe.Run([][]T{c.Values}, pipe.Opts{}, func(cs []<-chan T) []<-chan T {
				u, m, l := volatility.NewDonchianChannelWithPeriod[T](c.Period).Compute(cs[0])
				return []<-chan T{u, m, l}
			})
			if !res.OK() {
				o.Failf("DonchianChannel[%s](%d) over %v: %s: %s", name, c.Period, c.Values, res.Verdict, res.Detail)
				return o
			}
			flatOdd := false
			for k := range res.Outs[0] {
				u, m, l := res.Outs[0][k], res.Outs[1][k], res.Outs[2][k]
				v := c.Values[k+c.Period-1]
				if !(u >= m && m >= l) || !(l <= v && v <= u) {
					o.Failf("DonchianChannel[%s](%d) over %v: at value #%d (price %v) upper %v, middle %v, lower %v are not ordered upper >= middle >= lower with lower <= price <= upper", name, c.Period, c.Values, k, v, u, m, l)
					return o
				}
				if u == l && int64(u)%2 == 1 {
					flatOdd = true
				}
			}
			o.NonTrivial = len(res.Outs[0]) >= 2 && flatOdd
			o.Key = fmt.Sprint(c.Period, c.Values)
			return o
		},
	}
}

// IntBars is an integer OHLC series: level and daily range drawn on a logarithmic scale (cents of a
// penny stock up to the smallest unit of an index), so that products of two price-sized numbers
// sweep across the width of the type.
type IntBars[T helper.Integer] struct {
	Period int `json:"period"`
	High   []T `json:"high"`
	Low    []T `json:"low"`
	Close  []T `json:"close"`
}

func accelIntProp[T helper.Integer](name string, bits int) engine.AnyProp {
	return engine.Prop[IntBars[T]]{
		ID: "C15", Subject: "AccelerationBands/" + name,
		Gen: func(t *rapid.T) IntBars[T] {
			c := IntBars[T]{Period: rapid.IntRange(1, 5).Draw(t, "period")}
			n := rapid.IntRange(0, 20).Draw(t, "n")
			// level below 2^(bits-6): a high is at most 3.4 x level, so the sum of the 5 highs of the
			// longest window stays below 17/64 of the type's span and cannot overflow (the thorough
			// tier once produced 5 x 429496732 > MaxInt32 with a bound two bits higher: the harness's
			// overflow, not the library's); range a fraction 2^-k of the level
			level := int64(1) << rapid.IntRange(3, bits-7).Draw(t, "level_log2")
			level += rapid.Int64Range(0, level-1).Draw(t, "level")
			rng := level >> rapid.IntRange(1, 16).Draw(t, "range_log2")
			if rng < 1 {
				rng = 1
			}
			rng += rapid.Int64Range(0, rng).Draw(t, "range")
			for i := 0; i < n; i++ {
				lo := level + rapid.Int64Range(-rng/8, rng/8).Draw(t, "drift")
				r := rng + rapid.Int64Range(-rng/8, rng/8).Draw(t, "r")
				hi := lo + r
				cl := lo + rapid.Int64Range(0, r).Draw(t, "c")
				c.High, c.Low, c.Close = append(c.High, T(hi)), append(c.Low, T(lo)), append(c.Close, T(cl))
			}
			return c
		},
		Check: func(c IntBars[T]) engine.Outcome {
			var o engine.Outcome
			res := pipe.Run([][]T{c.High, c.Low, c.Close}, pipe.Opts{}, func(cs []<-chan T) []<-chan T {
				a := volatility.NewAccelerationBands[T]()
				a.Period = c.Period
				u, m, l := a.Compute(cs[0], cs[1], cs[2])
				return []<-chan T{u, m, l}
			})
			if !res.OK() {
				o.Failf("AccelerationBands[%s](%d): %s: %s", name, c.Period, res.Verdict, res.Detail)
				return o
			}
			for k := range res.Outs[0] {
				u, m, l := res.Outs[0][k], res.Outs[1][k], res.Outs[2][k]
				if !(u >= m && m >= l) {
					o.Failf("AccelerationBands[%s](%d) over highs %v lows %v closes %v: at value #%d upper %v, middle %v, lower %v are not ordered upper >= middle >= lower", name, c.Period, c.High, c.Low, c.Close, k, u, m, l)
					return o
				}
			}
			o.NonTrivial = len(res.Outs[0]) >= 2
			if len(c.High) > 0 {
				o.Class(fmt.Sprintf("4*high*range~2^%d", bitsLen(4*int64(c.High[0])*int64(c.High[0]-c.Low[0]))))
			}
			o.Key = fmt.Sprint(c.Period, c.High, c.Low, c.Close)
			return o
		},
	}
}

func bitsLen(v int64) int {
	n := 0
	for u := uint64(v); u > 0; u >>= 1 {
		n++
	}
	return n
}

func props() []engine.AnyProp {
	var ps []engine.AnyProp
	ps = append(ps, accelIntProp[int32]("int32", 32), accelIntProp[int64]("int64", 64), accelIntProp[int]("int", 64))
	ps = append(ps, donchianIntProp[int]("int", 1<<40), donchianIntProp[int64]("int64", 1<<40), donchianIntProp[int32]("int32", 1<<29), donchianIntProp[int16]("int16", 1<<13), donchianIntProp[int8]("int8", 60))
	for _, c := range claims {
		ps = append(ps, prop(c))
	}
	return ps
}

func TestC15(t *testing.T) { engine.RunAll(t, props(), false) }

func TestReplay(t *testing.T) { engine.Replay(t, "C15", props()) }
