// Package c03: pipelines never deadlock or leak and are schedule-independent.
package c03

import (
	"fmt"
	"math"
	"testing"

	"pgregory.net/rapid"
	"verif/harness/engine"
	"verif/harness/gen"
	"verif/harness/pipe"
	"verif/harness/reg"
	"verif/harness/sreg"
	"verif/harness/stub"
)

func TestMain(m *testing.M) { engine.Main(m) }

// Sched is everything the result must not depend on.
type Sched struct {
	Cap   int    `json:"cap"`
	FM    uint64 `json:"fm"`
	SM    uint64 `json:"sm"`
	Procs int    `json:"procs"`
}

func genSched(t *rapid.T) Sched {
	s := Sched{Cap: rapid.SampledFrom([]int{0, 0, 1, 2, 3, 4, 8}).Draw(t, "cap"), Procs: rapid.SampledFrom([]int{1, 2, 4, 16}).Draw(t, "procs")}
	if rapid.Bool().Draw(t, "paced") {
		s.FM, s.SM = rapid.Uint64().Draw(t, "fm"), rapid.Uint64().Draw(t, "sm")
	}
	return s
}

func (s Sched) opts() pipe.Opts {
	return pipe.Opts{Cap: s.Cap, FeedMask: s.FM, SinkMask: s.SM, Procs: s.Procs}
}

var refOpts = pipe.Opts{Procs: 16}

func same(a, b float64) bool {
	return math.Float64bits(a) == math.Float64bits(b) || (a != a && b != b)
}

// IndCase: an indicator with independently chosen input lengths.
type IndCase struct {
	Cfg   reg.Config `json:"cfg"`
	Bars  gen.Bars   `json:"bars"`
	Lens  []int      `json:"lens"` // length of each input (<= Bars.Len())
	Sched Sched      `json:"sched"`
}

func indProp(ind reg.Ind) engine.AnyProp {
	return engine.Prop[IndCase]{
		ID: "C03", Subject: "indicator/" + ind.Name,
		Gen: func(t *rapid.T) IndCase {
			cfg := ind.GenConfig(t, 0)
			w := ind.Idle(cfg)
			n := rapid.IntRange(0, 2*w+6).Draw(t, "n")
			if rapid.IntRange(0, 9).Draw(t, "long") == 0 {
				n = rapid.IntRange(0, 3*w+40).Draw(t, "n2")
			}
			c := IndCase{Cfg: cfg, Bars: gen.GenBarsAny(t, n+8), Lens: make([]int, len(ind.Inputs)), Sched: genSched(t)}
			for i := range c.Lens {
				c.Lens[i] = n
				if len(ind.Inputs) > 1 && rapid.IntRange(0, 2).Draw(t, "uneq") == 0 {
					c.Lens[i] = rapid.IntRange(0, n+8).Draw(t, "len")
				}
			}
			return c
		},
		Check: func(c IndCase) engine.Outcome {
			var o engine.Outcome
			ins := ind.Slices(c.Bars)
			unequal := false
			minLen := math.MaxInt32
			for i := range ins {
				ins[i] = ins[i][:c.Lens[i]]
				if c.Lens[i] != c.Lens[0] {
					unequal = true
				}
				if c.Lens[i] < minLen {
					minLen = c.Lens[i]
				}
			}
			res, w := ind.RunSlices(c.Cfg, ins, c.Sched.opts())
			desc := fmt.Sprintf("%s %v input lengths %v capacity %d GOMAXPROCS %d pacing %x/%x", ind.Name, c.Cfg, c.Lens, c.Sched.Cap, c.Sched.Procs, c.Sched.FM, c.Sched.SM)
			if !res.OK() {
				o.Failf("%s: %s: %s", desc, res.Verdict, res.Detail)
				return o
			}
			for i := range ins {
				if !res.FeedDone[i] {
					o.Failf("%s: input %d was not consumed to its end (%d of %d)", desc, i, res.Consumed[i], len(ins[i]))
					return o
				}
			}
			ref, _ := ind.RunSlices(c.Cfg, ins, refOpts)
			if !ref.OK() {
				o.Failf("%s: reference execution (unbuffered, unpaced): %s: %s", desc, ref.Verdict, ref.Detail)
				return o
			}
			for j := range res.Outs {
				if len(res.Outs[j]) != len(ref.Outs[j]) {
					o.Failf("%s: output %q has %d values, the unbuffered unpaced execution of the same inputs %d", desc, ind.Outs[j], len(res.Outs[j]), len(ref.Outs[j]))
					return o
				}
				for k := range res.Outs[j] {
					if !same(res.Outs[j][k], ref.Outs[j][k]) {
						o.Failf("%s: output %q value #%d is %v, the unbuffered unpaced execution yields %v", desc, ind.Outs[j], k, res.Outs[j][k], ref.Outs[j][k])
						return o
					}
				}
			}
			o.NonTrivial = unequal || minLen <= w || c.Sched.Cap > 0 || len(res.Outs) >= 2
			if unequal {
				o.Class("unequal_input_lengths")
			}
			if minLen <= w {
				o.Class("input<=warm-up")
			}
			if minLen == 0 {
				o.Class("empty_input")
			}
			if c.Sched.Cap > 0 {
				o.Class("buffered_inputs")
			}
			if c.Sched.FM|c.Sched.SM != 0 {
				o.Class("paced")
			}
			o.Class(fmt.Sprintf("GOMAXPROCS=%d", c.Sched.Procs))
			o.Key = fmt.Sprint(c.Cfg, c.Lens, c.Sched.Cap)
			return o
		},
	}
}

// StratCase: a strategy expression on snapshots.
type StratCase struct {
	Tree  sreg.Tree `json:"tree"`
	Bars  gen.Bars  `json:"bars"`
	Sched Sched     `json:"sched"`
}

func stratCheck(c StratCase) engine.Outcome {
	var o engine.Outcome
	sn := stub.Snapshots(c.Bars)
	res := sreg.RunStrategy(c.Tree.Build(), sn, c.Sched.opts())
	desc := fmt.Sprintf("%s on %d snapshots, capacity %d GOMAXPROCS %d pacing %x/%x", c.Tree, len(sn), c.Sched.Cap, c.Sched.Procs, c.Sched.FM, c.Sched.SM)
	if !res.OK() {
		o.Failf("%s: %s: %s", desc, res.Verdict, res.Detail)
		return o
	}
	if !res.FeedDone[0] {
		o.Failf("%s: the snapshots were not consumed to the end (%d of %d)", desc, res.Consumed[0], len(sn))
		return o
	}
	ref := sreg.RunStrategy(c.Tree.Build(), sn, refOpts)
	if !ref.OK() {
		o.Failf("%s: reference execution: %s: %s", desc, ref.Verdict, ref.Detail)
		return o
	}
	if len(res.Outs[0]) != len(ref.Outs[0]) {
		o.Failf("%s: %d actions, the unbuffered unpaced execution emits %d", desc, len(res.Outs[0]), len(ref.Outs[0]))
		return o
	}
	for i := range res.Outs[0] {
		if res.Outs[0][i] != ref.Outs[0][i] {
			o.Failf("%s: action #%d is %d, the unbuffered unpaced execution says %d", desc, i, res.Outs[0][i], ref.Outs[0][i])
			return o
		}
	}
	w := c.Tree.MaxWarm()
	o.NonTrivial = len(sn) <= w || c.Sched.Cap > 0 || c.Tree.Op != "leaf"
	if len(sn) <= w {
		o.Class("input<=warm-up")
	}
	if c.Sched.Cap > 0 {
		o.Class("buffered_inputs")
	}
	if c.Sched.FM|c.Sched.SM != 0 {
		o.Class("paced")
	}
	o.Class(fmt.Sprintf("GOMAXPROCS=%d", c.Sched.Procs))
	o.Key = fmt.Sprint(c.Tree, len(sn), c.Sched.Cap)
	return o
}

func genN(t *rapid.T, w int) int {
	if rapid.IntRange(0, 2).Draw(t, "short") == 0 {
		return rapid.IntRange(0, w+1).Draw(t, "n_short")
	}
	return rapid.IntRange(0, 2*w+20).Draw(t, "n")
}

func baseStratProp(st sreg.Strat) engine.AnyProp {
	return engine.Prop[StratCase]{
		ID: "C03", Subject: "strategy/" + st.Name,
		Gen: func(t *rapid.T) StratCase {
			tr := sreg.Tree{Op: "leaf", Leaf: st.Name, Cfg: st.GenConfig(t)}
			if st.Plain != nil && rapid.IntRange(0, 19).Draw(t, "plain") == 0 {
				tr.Plain = true
			}
			return StratCase{Tree: tr, Bars: gen.GenBarsAny(t, genN(t, tr.Warm())), Sched: genSched(t)}
		},
		Check: stratCheck,
	}
}

func treeProp() engine.AnyProp {
	names := sreg.OnTimeNames()
	return engine.Prop[StratCase]{
		ID: "C03", Subject: "strategy/decorated+compound",
		Gen: func(t *rapid.T) StratCase {
			tr := sreg.GenTree(t, names, 2)
			return StratCase{Tree: tr, Bars: gen.GenBarsAny(t, genN(t, tr.MaxWarm())), Sched: genSched(t)}
		},
		Check: stratCheck,
	}
}

func props() []engine.AnyProp {
	var ps []engine.AnyProp
	for _, ind := range reg.All() {
		ps = append(ps, indProp(ind))
	}
	for _, st := range sreg.Base() {
		ps = append(ps, baseStratProp(st))
	}
	for _, st := range sreg.Extra() {
		ps = append(ps, baseStratProp(st))
	}
	return append(ps, treeProp())
}

func TestC03(t *testing.T) { engine.RunAll(t, props(), false) }

func TestReplay(t *testing.T) { engine.Replay(t, "C03", props()) }
