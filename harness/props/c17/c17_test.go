// Package c17: ring buffer and search tree against their abstract models under generated
// operation histories, for every supported element type.
package c17

import (
	"fmt"
	"math"
	"testing"

	"github.com/cinar/indicator/v2/helper"
	"github.com/cinar/indicator/v2/trend"
	"pgregory.net/rapid"
	"verif/harness/engine"
	"verif/harness/pipe"
)

func TestMain(m *testing.M) { engine.Main(m) }

// Op is one operation of a history. K: ring: put/get/at/full/empty; bst: ins/rem/has/min/max.
type Op[T helper.Number] struct {
	K string `json:"k"`
	V T      `json:"v"`
	I int    `json:"i,omitempty"`
}

// Case is a history on one container.
type Case[T helper.Number] struct {
	Cap int     `json:"cap,omitempty"`
	Ops []Op[T] `json:"ops"`
}

func alphabet[T helper.Number]() []T {
	var z T
	var out []T
	switch any(z).(type) {
	case int8:
		for _, v := range []int64{math.MinInt8, math.MinInt8 + 1, -100, -1, 0, 1, 2, 3, 100, math.MaxInt8 - 1, math.MaxInt8} {
			out = append(out, T(v))
		}
	case int16:
		for _, v := range []int64{math.MinInt16, math.MinInt16 + 1, -30000, -1, 0, 1, 2, 3, 30000, math.MaxInt16 - 1, math.MaxInt16} {
			out = append(out, T(v))
		}
	case int32:
		for _, v := range []int64{math.MinInt32, math.MinInt32 + 1, -2000000000, -1, 0, 1, 2, 3, 2000000000, math.MaxInt32 - 1, math.MaxInt32} {
			out = append(out, T(v))
		}
	case int64, int:
		for _, v := range []int64{math.MinInt64, math.MinInt64 + 1, -9000000000000000000, -1, 0, 1, 2, 3, 9000000000000000000, math.MaxInt64 - 1, math.MaxInt64} {
			out = append(out, T(v))
		}
	case float32:
		for _, v := range []float64{-math.MaxFloat32, -1e30, -1.5, -math.SmallestNonzeroFloat32, math.Copysign(0, -1), 0, math.SmallestNonzeroFloat32, 0.5, 1, 1.5, 1e30, math.MaxFloat32} {
			out = append(out, T(v))
		}
	case float64:
		for _, v := range []float64{-math.MaxFloat64, -1e300, -1.5, -math.SmallestNonzeroFloat64, math.Copysign(0, -1), 0, math.SmallestNonzeroFloat64, 0.5, 1, 1.5, 1e300, math.MaxFloat64} {
			out = append(out, T(v))
		}
	}
	return out
}

func genValue[T helper.Number](t *rapid.T, alpha []T) T {
	// A narrow sub-alphabet in most draws makes duplicates and hits frequent.
	if rapid.IntRange(0, 3).Draw(t, "narrow") > 0 {
		mid := len(alpha) / 2
		return alpha[rapid.IntRange(mid-2, mid+2).Draw(t, "vi")]
	}
	return alpha[rapid.IntRange(0, len(alpha)-1).Draw(t, "vi")]
}

// ---------- Bst ----------

type shadow[T helper.Number] struct {
	v    T
	l, r *shadow[T]
}

// shadowTree mirrors the insertion discipline (duplicates to the left) and textbook deletion only
// to classify the shape of removals; it takes no part in the verdict.
type shadowTree[T helper.Number] struct{ root *shadow[T] }

func (s *shadowTree[T]) insert(v T) {
	p := &s.root
	for *p != nil {
		if v <= (*p).v {
			p = &(*p).l
		} else {
			p = &(*p).r
		}
	}
	*p = &shadow[T]{v: v}
}

func (s *shadowTree[T]) remove(v T) (twoChildren, root bool) {
	p := &s.root
	for *p != nil && (*p).v != v {
		if v < (*p).v {
			p = &(*p).l
		} else {
			p = &(*p).r
		}
	}
	if *p == nil {
		return false, false
	}
	root = p == &s.root
	n := *p
	if n.l != nil && n.r != nil {
		q := &n.r
		for (*q).l != nil {
			q = &(*q).l
		}
		n.v = (*q).v
		*q = (*q).r
		return true, root
	}
	if n.l != nil {
		*p = n.l
	} else {
		*p = n.r
	}
	return false, root
}

func bstProp[T helper.Number](name string) engine.AnyProp {
	alpha := alphabet[T]()
	return engine.Prop[Case[T]]{
		ID: "C17", Subject: "Bst/" + name,
		Gen: func(t *rapid.T) Case[T] {
			n := rapid.IntRange(0, 40).Draw(t, "n")
			if rapid.IntRange(0, 15).Draw(t, "crowded") == 7 {
				// a crowded multiset: one value inserted hundreds of times (more occurrences than the
				// narrow element types can count), then removed again one by one
				v, w := genValue(t, alpha), genValue(t, alpha)
				k := rapid.SampledFrom([]int{120, 130, 260, 300}).Draw(t, "copies")
				var ops []Op[T]
				for i := 0; i < k; i++ {
					ops = append(ops, Op[T]{K: "ins", V: v})
					if i%50 == 49 {
						ops = append(ops, Op[T]{K: "ins", V: w}, Op[T]{K: "max"}, Op[T]{K: "min"})
					}
				}
				for i := 0; i < k-1; i++ {
					ops = append(ops, Op[T]{K: "rem", V: v})
					if i%40 == 39 {
						ops = append(ops, Op[T]{K: "has", V: v}, Op[T]{K: "max"}, Op[T]{K: "min"})
					}
				}
				ops = append(ops, Op[T]{K: "has", V: v}, Op[T]{K: "rem", V: v}, Op[T]{K: "has", V: v}, Op[T]{K: "rem", V: v})
				return Case[T]{Ops: ops}
			}
			ops := make([]Op[T], n)
			for i := range ops {
				k := rapid.SampledFrom([]string{"ins", "ins", "ins", "rem", "rem", "has", "min", "max"}).Draw(t, "k")
				ops[i] = Op[T]{K: k}
				if k == "ins" || k == "rem" || k == "has" {
					ops[i].V = genValue(t, alpha)
				}
			}
			return Case[T]{Ops: ops}
		},
		Check: func(c Case[T]) engine.Outcome {
			var o engine.Outcome
			b := helper.NewBst[T]()
			model := map[T]int{}
			size := 0
			sh := &shadowTree[T]{}
			modelMinMax := func() (lo, hi T) {
				first := true
				for k := range model {
					if first {
						lo, hi, first = k, k, false
						continue
					}
					if k < lo {
						lo = k
					}
					if k > hi {
						hi = k
					}
				}
				return
			}
			interesting := false
			for i, op := range c.Ops {
				switch op.K {
				case "ins":
					b.Insert(op.V)
					model[op.V]++
					size++
					sh.insert(op.V)
				case "rem":
					got := b.Remove(op.V)
					want := model[op.V] > 0
					if got != want {
						o.Failf("step %d Remove(%v) = %v, multiset says %v", i, op.V, got, want)
						return o
					}
					if want {
						if model[op.V] > 1 {
							interesting = true
							o.Add("remove_duplicated_key", 1)
						}
						lo, hi := modelMinMax()
						if len(model) >= 3 && op.V != lo && op.V != hi {
							interesting = true
							o.Add("remove_interior_key", 1)
						}
						two, root := sh.remove(op.V)
						if two {
							o.Add("remove_two_children(shadow)", 1)
						}
						if root {
							o.Add("remove_root(shadow)", 1)
						}
						model[op.V]--
						if model[op.V] == 0 {
							delete(model, op.V)
						}
						size--
					} else {
						o.Add("remove_absent", 1)
					}
				case "has":
					got := b.Contains(op.V)
					want := model[op.V] > 0
					if got != want {
						o.Failf("step %d Contains(%v) = %v, multiset says %v", i, op.V, got, want)
						return o
					}
				case "min", "max":
					if size == 0 {
						continue // unspecified on an empty tree
					}
					lo, hi := modelMinMax()
					if op.K == "min" {
						if got := b.Min(); got != lo {
							o.Failf("step %d Min() = %v, multiset minimum %v", i, got, lo)
							return o
						}
					} else if got := b.Max(); got != hi {
						o.Failf("step %d Max() = %v, multiset maximum %v", i, got, hi)
						return o
					}
				}
				// all observers agree after every step
				for _, v := range alpha {
					if b.Contains(v) != (model[v] > 0) {
						o.Failf("after step %d (%s %v): Contains(%v) = %v, multiset holds %d", i, op.K, op.V, v, b.Contains(v), model[v])
						return o
					}
				}
				if size > 0 {
					lo, hi := modelMinMax()
					if b.Min() != lo || b.Max() != hi {
						o.Failf("after step %d (%s %v): Min/Max = %v/%v, multiset %v/%v", i, op.K, op.V, b.Min(), b.Max(), lo, hi)
						return o
					}
				}
			}
			// drain: removing everything the multiset holds must succeed exactly that many times
			for v, n := range model {
				for j := 0; j < n; j++ {
					if !b.Remove(v) {
						o.Failf("final drain: Remove(%v) #%d failed, multiset held %d", v, j+1, n)
						return o
					}
				}
				if b.Remove(v) || b.Contains(v) {
					o.Failf("final drain: %v still present after removing all %d occurrences", v, n)
					return o
				}
			}
			o.NonTrivial = interesting
			o.Key = fmt.Sprint(c.Ops)
			return o
		},
	}
}

// ---------- Ring ----------

func ringProp[T helper.Number](name string) engine.AnyProp {
	alpha := alphabet[T]()
	return engine.Prop[Case[T]]{
		ID: "C17", Subject: "Ring/" + name,
		Gen: func(t *rapid.T) Case[T] {
			c := Case[T]{Cap: rapid.IntRange(1, 6).Draw(t, "cap")}
			n := rapid.IntRange(0, 40).Draw(t, "n")
			c.Ops = make([]Op[T], n)
			for i := range c.Ops {
				k := rapid.SampledFrom([]string{"put", "put", "put", "get", "get", "at", "full", "empty"}).Draw(t, "k")
				c.Ops[i] = Op[T]{K: k}
				switch k {
				case "put":
					c.Ops[i].V = alpha[rapid.IntRange(0, len(alpha)-1).Draw(t, "vi")]
				case "at":
					c.Ops[i].I = rapid.IntRange(0, 5).Draw(t, "i")
				}
			}
			return c
		},
		Check: func(c Case[T]) engine.Outcome {
			var o engine.Outcome
			r := helper.NewRing[T](c.Cap)
			var model []T
			wrapped, wrapThenGet := false, false
			for i, op := range c.Ops {
				switch op.K {
				case "put":
					got := r.Put(op.V)
					if len(model) == c.Cap {
						if got != model[0] {
							o.Failf("step %d Put(%v) on a full ring returned %v, oldest element is %v", i, op.V, got, model[0])
							return o
						}
						model = model[1:]
						wrapped = true
						o.Add("overwrites", 1)
					}
					model = append(model, op.V)
				case "get":
					got, ok := r.Get()
					if ok != (len(model) > 0) {
						o.Failf("step %d Get() ok=%v, model holds %d", i, ok, len(model))
						return o
					}
					if ok {
						if got != model[0] {
							o.Failf("step %d Get() = %v, oldest element is %v", i, got, model[0])
							return o
						}
						model = model[1:]
						if wrapped {
							wrapThenGet = true
						}
					}
				case "at":
					if len(model) == 0 {
						continue
					}
					j := op.I % len(model)
					if got := r.At(j); got != model[j] {
						o.Failf("step %d At(%d) = %v, model %v (contents %v)", i, j, got, model[j], model)
						return o
					}
				case "full":
					if got := r.IsFull(); got != (len(model) == c.Cap) {
						o.Failf("step %d IsFull() = %v with %d of %d", i, got, len(model), c.Cap)
						return o
					}
				case "empty":
					if got := r.IsEmpty(); got != (len(model) == 0) {
						o.Failf("step %d IsEmpty() = %v with %d elements", i, got, len(model))
						return o
					}
				}
				// all observers agree after every step
				if r.IsEmpty() != (len(model) == 0) || r.IsFull() != (len(model) == c.Cap) {
					o.Failf("after step %d (%s): IsEmpty=%v IsFull=%v, model holds %d of %d", i, op.K, r.IsEmpty(), r.IsFull(), len(model), c.Cap)
					return o
				}
				for j := range model {
					if got := r.At(j); got != model[j] {
						o.Failf("after step %d (%s): At(%d) = %v, model %v", i, op.K, j, got, model)
						return o
					}
				}
			}
			// drain
			for j, want := range model {
				got, ok := r.Get()
				if !ok || got != want {
					o.Failf("final drain: Get #%d = %v,%v want %v", j, got, ok, want)
					return o
				}
			}
			if _, ok := r.Get(); ok {
				o.Failf("final drain: ring not empty after %d gets", len(model))
				return o
			}
			o.NonTrivial = wrapThenGet
			o.Key = fmt.Sprint(c.Cap, c.Ops)
			return o
		},
	}
}

// ---------- the sliding-window minimum / maximum built on the two (trend.MovingMin / MovingMax) ----------

// WinCase is a series and a window length.
type WinCase[T helper.Number] struct {
	Period int `json:"period"`
	Values []T `json:"values"`
}

func windowProp[T helper.Number](name string) engine.AnyProp {
	alpha := alphabet[T]()
	return engine.Prop[WinCase[T]]{
		ID: "C17", Subject: "MovingMinMax/" + name,
		Gen: func(t *rapid.T) WinCase[T] {
			c := WinCase[T]{Period: rapid.IntRange(1, 6).Draw(t, "period")}
			n := rapid.IntRange(0, 24).Draw(t, "n")
			if rapid.IntRange(0, 15).Draw(t, "quiet") == 7 {
				// a long window over a quiet series: hundreds of equal values at once (more than
				// the narrow element types can count)
				c.Period = rapid.SampledFrom([]int{100, 130, 200, 300}).Draw(t, "long_period")
				n = c.Period + rapid.IntRange(0, 80).Draw(t, "extra")
				base, other := genValue(t, alpha), genValue(t, alpha)
				for i := 0; i < n; i++ {
					v := base
					if rapid.IntRange(0, 9).Draw(t, "dip") == 4 {
						v = other
					}
					c.Values = append(c.Values, v)
				}
				return c
			}
			for i := 0; i < n; i++ {
				c.Values = append(c.Values, genValue(t, alpha))
			}
			return c
		},
		Check: func(c WinCase[T]) engine.Outcome {
			var o engine.Outcome
			res := pipe.Run([][]T{c.Values, c.Values}, pipe.Opts{}, func(cs []<-chan T) []<-chan T {
				return []<-chan T{trend.NewMovingMinWithPeriod[T](c.Period).Compute(cs[0]), trend.NewMovingMaxWithPeriod[T](c.Period).Compute(cs[1])}
			})
			if !res.OK() {
				o.Failf("MovingMin/MovingMax(%d) over %v: %s: %s", c.Period, c.Values, res.Verdict, res.Detail)
				return o
			}
			want := len(c.Values) - c.Period + 1
			if want < 0 {
				want = 0
			}
			if len(res.Outs[0]) != want || len(res.Outs[1]) != want {
				o.Failf("MovingMin/MovingMax(%d) over %d values delivered %d / %d values, want %d", c.Period, len(c.Values), len(res.Outs[0]), len(res.Outs[1]), want)
				return o
			}
			extreme, dup := false, false
			for k := 0; k < want; k++ {
				w := c.Values[k : k+c.Period]
				lo, hi := w[0], w[0]
				for i, v := range w {
					if v < lo {
						lo = v
					}
					if v > hi {
						hi = v
					}
					if v == alpha[0] || v == alpha[len(alpha)-1] {
						extreme = true
					}
					for _, u := range w[:i] {
						if u == v {
							dup = true
						}
					}
				}
				if res.Outs[0][k] != lo || res.Outs[1][k] != hi {
					o.Failf("window %v (period %d, #%d of %v): MovingMin = %v, MovingMax = %v; the multiset's minimum and maximum are %v and %v", w, c.Period, k, c.Values, res.Outs[0][k], res.Outs[1][k], lo, hi)
					return o
				}
			}
			o.NonTrivial = want >= 2 && c.Period >= 2 && extreme && dup
			if extreme {
				o.Class("window_holds_an_extreme_of_the_type")
			}
			o.Key = fmt.Sprint(c.Period, c.Values)
			return o
		},
	}
}

func props() []engine.AnyProp {
	return []engine.AnyProp{
		bstProp[int8]("int8"), bstProp[int16]("int16"), bstProp[int32]("int32"), bstProp[int64]("int64"),
		bstProp[int]("int"), bstProp[float32]("float32"), bstProp[float64]("float64"),
		ringProp[int8]("int8"), ringProp[int64]("int64"), ringProp[float64]("float64"), ringProp[int]("int"),
		windowProp[int8]("int8"), windowProp[int16]("int16"), windowProp[int32]("int32"), windowProp[int64]("int64"),
		windowProp[int]("int"), windowProp[float32]("float32"), windowProp[float64]("float64"),
	}
}

func TestC17(t *testing.T) { engine.RunAll(t, props(), true) }

func TestReplay(t *testing.T) { engine.Replay(t, "C17", props()) }

// Native fuzz targets (thorough tier): bytes drive the same generators through rapid.MakeFuzz.
func FuzzBstInt8(f *testing.F) { f.Fuzz(rapid.MakeFuzz(props()[0].Fuzz)) }
func FuzzRing(f *testing.F)    { f.Fuzz(rapid.MakeFuzz(props()[7].Fuzz)) }
