// Package c13: a backtest reports every asset x strategy once, for any worker count, in protocol
// order, equal to direct evaluation; rankings are in non-increasing outcome order. Built with -race.
package c13

import (
	"fmt"
	"io"
	"log/slog"
	"math"
	"os"
	"path/filepath"
	"regexp"
	"sort"
	"strconv"
	"strings"
	"sync"
	"testing"
	"time"

	"github.com/cinar/indicator/v2/asset"
	"github.com/cinar/indicator/v2/backtest"
	"github.com/cinar/indicator/v2/helper"
	"github.com/cinar/indicator/v2/strategy"
	"pgregory.net/rapid"
	"verif/harness/engine"
	"verif/harness/pipe"
	"verif/harness/sreg"
	"verif/harness/stub"
)

func TestMain(m *testing.M) {
	slog.SetDefault(slog.New(slog.NewTextHandler(io.Discard, nil)))
	engine.Main(m)
}

var quiet = slog.New(slog.NewTextHandler(io.Discard, nil))

// AssetData: closes of one asset; the first Old snapshots are dated well before the look-back
// window, the rest well inside it.
type AssetData struct {
	Name   string    `json:"name"`
	Closes []float64 `json:"closes"`
	Old    int       `json:"old"`
}

// Case is one backtest scenario.
type Case struct {
	Assets   []AssetData `json:"assets"`
	Words    [][]int     `json:"words"`  // scripted strategies
	Leaves   []sreg.Tree `json:"leaves"` // registry strategies (distinct types)
	Workers  int         `json:"workers"`
	Report   string      `json:"report"` // recording, data, html, html+pages
	LastDays int         `json:"last_days"`
	// Ghosts > 0: the name list is explicit and holds 2*Ghosts names the repository does not have
	Ghosts int `json:"ghosts,omitempty"`
	// Rerun > 0: the same Backtest and report instance run a second time, without the first
	// Rerun-1 strategies of the list (0 dropped = an identical second run)
	Rerun int `json:"rerun,omitempty"`
}

func genCase(t *rapid.T) Case {
	c := Case{Workers: rapid.IntRange(1, 16).Draw(t, "workers"), Report: rapid.SampledFrom([]string{"recording", "data", "data", "html", "html", "html+pages"}).Draw(t, "report"), LastDays: rapid.SampledFrom([]int{365, 365, 200, 500}).Draw(t, "lastdays")}
	na := rapid.IntRange(1, 12).Draw(t, "assets")
	for i := 0; i < na; i++ {
		n := rapid.IntRange(20, 120).Draw(t, "n")
		a := AssetData{Name: fmt.Sprintf("asset%02d", i)}
		switch rapid.IntRange(0, 9).Draw(t, "hasold") {
		case 0, 1:
			a.Old = rapid.IntRange(1, n/2).Draw(t, "old")
		case 2:
			a.Old = n // nothing inside the look-back window
		}
		x := float64(rapid.IntRange(6400, 12800).Draw(t, "c0")) / 64
		for j := 0; j < n; j++ {
			// low volatility: outcomes of different strategies end up within a point of each other
			x += float64(rapid.IntRange(-8, 8).Draw(t, "d")) / 64
			if x < 1 {
				x = 1
			}
			a.Closes = append(a.Closes, x)
		}
		if a.Old < n && rapid.IntRange(0, 5).Draw(t, "missing_quote") == 3 {
			// a missing quote somewhere in the window (0, as a vendor's placeholder)
			a.Closes[rapid.IntRange(a.Old, n-1).Draw(t, "missing_at")%n] = 0
		}
		c.Assets = append(c.Assets, a)
	}
	nw := rapid.IntRange(1, 5).Draw(t, "scripted")
	for i := 0; i < nw; i++ {
		if i > 0 && rapid.IntRange(0, 3).Draw(t, "dup") == 0 {
			c.Words = append(c.Words, append([]int{}, c.Words[i-1]...)) // exact tie
			continue
		}
		w := make([]int, 120)
		for j := range w {
			if rapid.IntRange(0, 5).Draw(t, "act") == 0 {
				w[j] = rapid.SampledFrom([]int{-1, 1}).Draw(t, "a")
			}
		}
		c.Words = append(c.Words, w)
	}
	names := rapid.Permutation([]string{"BuyAndHold", "Rsi", "Macd", "BollingerBands", "Kama", "Bop", "Vwma", "ForceIndex"}).Draw(t, "leafnames")
	for i, k := 0, rapid.IntRange(0, 3).Draw(t, "leaves"); i < k; i++ {
		st, _ := sreg.ByName(names[i])
		c.Leaves = append(c.Leaves, sreg.Tree{Op: "leaf", Leaf: names[i], Cfg: st.GenConfig(t)})
	}
	if c.Report != "recording" && rapid.IntRange(0, 4).Draw(t, "ghosts") == 2 {
		c.Ghosts = rapid.IntRange(1, 4).Draw(t, "nghosts")
	}
	if rapid.IntRange(0, 3).Draw(t, "rerun") == 0 {
		c.Rerun = 1 + rapid.IntRange(0, len(c.Words)+len(c.Leaves)-1).Draw(t, "dropped")
	}
	return c
}

func today() time.Time {
	n := time.Now().UTC()
	return time.Date(n.Year(), n.Month(), n.Day(), 0, 0, 0, 0, time.UTC)
}

// snapshots dates the asset's bars: Old ones 30+ days before the window, the rest ending 20 days ago.
func (a AssetData) snapshots(lastDays int) (all, inWindow []*asset.Snapshot) {
	n := len(a.Closes)
	base := today()
	for i, c := range a.Closes {
		var d time.Time
		if i < a.Old {
			d = base.AddDate(0, 0, -lastDays-30-(a.Old-i))
		} else {
			d = base.AddDate(0, 0, -20-(n-i))
		}
		s := &asset.Snapshot{Date: d, Open: c, High: c + 0.5, Low: c - 0.5, Close: c, Volume: 1000}
		all = append(all, s)
		if i >= a.Old {
			inWindow = append(inWindow, s)
		}
	}
	return
}

func (c Case) strategies() []strategy.Strategy {
	var out []strategy.Strategy
	for i, w := range c.Words {
		word := make([]strategy.Action, len(w))
		for j, a := range w {
			word[j] = strategy.Action(a)
		}
		out = append(out, &stub.Scripted{Label: fmt.Sprintf("scripted-%d", i), Word: word})
	}
	for _, l := range c.Leaves {
		out = append(out, l.Build())
	}
	return out
}

// recording is a Report that records the protocol.
type recording struct {
	mu     sync.Mutex
	events []string
	writes map[string]int
}

func (r *recording) add(e string) {
	r.mu.Lock()
	r.events = append(r.events, e)
	r.mu.Unlock()
}
func (r *recording) Begin(names []string, _ []strategy.Strategy) error { r.add("begin"); return nil }
func (r *recording) AssetBegin(name string, _ []strategy.Strategy) error {
	r.add("assetbegin " + name)
	return nil
}
func (r *recording) Write(name string, s strategy.Strategy, sn <-chan *asset.Snapshot, a <-chan strategy.Action, oc <-chan float64) error {
	go helper.Drain(sn)
	go helper.Drain(a)
	helper.Drain(oc)
	r.add("write " + name + " | " + s.Name())
	return nil
}
func (r *recording) AssetEnd(name string) error { r.add("assetend " + name); return nil }
func (r *recording) End() error                 { r.add("end"); return nil }

type direct struct {
	outcome float64
	action  strategy.Action
	actions []strategy.Action
}

// evaluate runs a strategy directly on the in-window snapshots.
func evaluate(s strategy.Strategy, sn []*asset.Snapshot) direct {
	acts, outs := strategy.ComputeWithOutcome(s, helper.SliceToChan(sn))
	var d direct
	var wg sync.WaitGroup
	wg.Add(1)
	go func() {
		defer wg.Done()
		for o := range outs {
			d.outcome = o
		}
	}()
	for a := range acts {
		d.actions = append(d.actions, a)
		d.action = a
	}
	wg.Wait()
	return d
}

var rowRe = regexp.MustCompile(`(?s)<tr>\s*<td><a href="[^"]*">([^<]*)</a></td>(.*?)</tr>`)
var pctRe = regexp.MustCompile(`(-?[0-9]+\.[0-9]{2}|NaN|[+-]Inf)%`)

type htmlRow struct {
	name    string
	outcome float64
}

func parseRows(path string) ([]htmlRow, error) {
	b, err := os.ReadFile(path)
	if err != nil {
		return nil, err
	}
	var rows []htmlRow
	for _, m := range rowRe.FindAllStringSubmatch(string(b), -1) {
		p := pctRe.FindStringSubmatch(m[2])
		if p == nil {
			return nil, fmt.Errorf("row of %q has no outcome cell", m[1])
		}
		v, _ := strconv.ParseFloat(p[1], 64)
		rows = append(rows, htmlRow{strings.TrimSpace(m[1]), v})
	}
	return rows, nil
}

func check(c Case) engine.Outcome {
	var o engine.Outcome
	repo := asset.NewInMemoryRepository()
	inWin := map[string][]*asset.Snapshot{}
	for _, a := range c.Assets {
		all, win := a.snapshots(c.LastDays)
		_ = repo.Append(a.Name, helper.SliceToChan(all))
		inWin[a.Name] = win
	}
	strategies := c.strategies()
	// direct evaluation with fresh instances
	want := map[string]direct{}
	for _, a := range c.Assets {
		for i, s := range c.strategies() {
			want[a.Name+" | "+strategies[i].Name()] = evaluate(s, inWin[a.Name])
		}
	}
	// the direct evaluation itself: its outcome is the all-in/all-out simulation of ITS actions on
	// the in-window closings (whatever those are: a missing quote is repository content too)
	for _, a := range c.Assets {
		for _, s := range strategies {
			d := want[a.Name+" | "+s.Name()]
			if len(d.actions) != len(inWin[a.Name]) {
				continue
			}
			balance, shares, out := 1.0, 0.0, 0.0
			for i, sn := range inWin[a.Name] {
				if balance > 0 && d.actions[i] == strategy.Buy {
					shares, balance = balance/sn.Close, 0
				} else if shares > 0 && d.actions[i] == strategy.Sell {
					balance, shares = shares*sn.Close, 0
				}
				out = balance + shares*sn.Close - 1
			}
			if len(d.actions) > 0 && !(out == d.outcome || math.Abs(out-d.outcome) <= 1e-12*math.Max(1, math.Abs(out)) || (out != out && d.outcome != d.outcome)) {
				o.Failf("asset %s strategy %s: evaluating the strategy on the %d in-window snapshots gives outcome %v, the all-in/all-out simulation of its actions on their closings gives %v", a.Name, s.Name(), len(d.actions), d.outcome, out)
				return o
			}
		}
	}
	var rep backtest.Report
	rec := &recording{}
	data := backtest.NewDataReport()
	dir := ""
	switch c.Report {
	case "recording":
		rep = rec
	case "data":
		rep = data
	default:
		d, err := os.MkdirTemp("", "verif-c13-")
		if err != nil {
			o.Failf("harness: %v", err)
			return o
		}
		dir = d
		defer os.RemoveAll(dir)
		h := backtest.NewHTMLReport(dir)
		h.WriteStrategyReports = c.Report == "html+pages"
		h.Logger = quiet
		rep = h
	}
	bt := backtest.NewBacktest(repo, rep)
	bt.Workers, bt.LastDays, bt.Logger = c.Workers, c.LastDays, quiet
	if c.Ghosts > 0 {
		// an explicit name list that also holds assets the repository does not have: they are
		// skipped (and logged), the others are backtested as usual
		for i, a := range c.Assets {
			bt.Names = append(bt.Names, a.Name)
			if i < c.Ghosts {
				bt.Names = append(bt.Names, fmt.Sprintf("ghost%02d", i), fmt.Sprintf("phantom%02d", i))
			}
		}
		o.Class("names_include_missing_assets")
	}
	nearTie := false
	for round := 0; round == 0 || (round == 1 && c.Rerun > 0); round++ {
		if round == 1 {
			// the second run of the same Backtest on the same report: its results replace the first run's
			strategies = strategies[c.Rerun-1:]
			rec.events = nil
			o.Class("second_run_on_the_same_report")
		}
		bt.Strategies = strategies
		var runErr error
		if verdict, detail := pipe.Call(func() { runErr = bt.Run() }); verdict != "ok" {
			o.Failf("Backtest.Run with %d workers and the %s report never returned: %s: %s", c.Workers, c.Report, verdict, detail)
			return o
		}
		if runErr != nil {
			o.Failf("Backtest.Run: %v", runErr)
			return o
		}
		for _, a := range c.Assets {
			var outs []float64
			for _, s := range strategies {
				outs = append(outs, want[a.Name+" | "+s.Name()].outcome*100)
			}
			sort.Float64s(outs)
			for i := 1; i < len(outs); i++ {
				if outs[i]-outs[i-1] < 1 {
					nearTie = true
				}
			}
		}
		switch c.Report {
		case "recording":
			ev := rec.events
			if len(ev) == 0 || ev[0] != "begin" || ev[len(ev)-1] != "end" {
				o.Failf("protocol: first/last notifications are %q / %q, want begin / end (%d events)", first(ev), last(ev), len(ev))
				return o
			}
			state := map[string]int{} // 0 none, 1 begun, 2 ended
			writes := map[string]int{}
			for i, e := range ev[1 : len(ev)-1] {
				f := strings.SplitN(e, " ", 2)
				switch f[0] {
				case "assetbegin":
					if state[f[1]] != 0 {
						o.Failf("protocol: asset %s begun twice (event %d)", f[1], i+1)
						return o
					}
					state[f[1]] = 1
				case "write":
					name := strings.SplitN(f[1], " | ", 2)[0]
					if state[name] != 1 {
						o.Failf("protocol: write for %s outside its asset-begin/asset-end bracket (event %d: %v)", name, i+1, ev)
						return o
					}
					writes[f[1]]++
				case "assetend":
					if state[f[1]] != 1 {
						o.Failf("protocol: asset-end for %s without asset-begin", f[1])
						return o
					}
					state[f[1]] = 2
				default:
					o.Failf("protocol: %q in the middle of the run", e)
					return o
				}
			}
			for _, a := range c.Assets {
				if state[a.Name] != 2 {
					o.Failf("protocol: asset %s was not begun and ended exactly once (state %d)", a.Name, state[a.Name])
					return o
				}
				for _, s := range strategies {
					if n := writes[a.Name+" | "+s.Name()]; n != 1 {
						o.Failf("protocol: %d results for (%s, %s), want exactly 1", n, a.Name, s.Name())
						return o
					}
				}
			}
		case "data":
			if len(data.Results) != len(c.Assets) {
				o.Failf("DataReport holds results for %d assets, the repository has %d", len(data.Results), len(c.Assets))
				return o
			}
			for _, a := range c.Assets {
				rs := data.Results[a.Name]
				if len(rs) != len(strategies) {
					o.Failf("DataReport: %d results for asset %s, want one per strategy (%d)", len(rs), a.Name, len(strategies))
					return o
				}
				seen := map[string]bool{}
				for _, r := range rs {
					key := a.Name + " | " + r.Strategy.Name()
					w, ok := want[key]
					if !ok || seen[key] {
						o.Failf("DataReport: unexpected or duplicate result %s", key)
						return o
					}
					seen[key] = true
					if math.Float64bits(r.Outcome) != math.Float64bits(w.outcome) || r.Action != w.action || len(r.Transactions) != len(w.actions) {
						o.Failf("DataReport %s with %d workers: outcome %v last action %d with %d actions; evaluating the strategy directly on the %d in-window snapshots gives outcome %v last action %d with %d actions", key, c.Workers, r.Outcome, r.Action, len(r.Transactions), len(inWin[a.Name]), w.outcome, w.action, len(w.actions))
						return o
					}
					for i := range w.actions {
						if r.Transactions[i] != w.actions[i] {
							o.Failf("DataReport %s: action %d is %d, direct evaluation says %d", key, i, r.Transactions[i], w.actions[i])
							return o
						}
					}
				}
			}
		default:
			best := map[string]float64{}
			anyNaN := false
			for _, a := range c.Assets {
				rows, err := parseRows(filepath.Join(dir, a.Name+".html"))
				if err != nil {
					o.Failf("HTML report of %s: %v", a.Name, err)
					return o
				}
				if len(rows) != len(strategies) {
					o.Failf("HTML report of %s lists %d strategies, want %d", a.Name, len(rows), len(strategies))
					return o
				}
				seen := map[string]bool{}
				maxWant := math.Inf(-1)
				assetNaN := false
				for _, r := range rows {
					if r.outcome != r.outcome {
						assetNaN, anyNaN = true, true // no order is defined among undefined outcomes
					}
				}
				for i, r := range rows {
					w, ok := want[a.Name+" | "+r.name]
					if !ok || seen[r.name] {
						o.Failf("HTML report of %s: unexpected or duplicate strategy row %q", a.Name, r.name)
						return o
					}
					seen[r.name] = true
					if pw, _ := strconv.ParseFloat(fmt.Sprintf("%.2f", w.outcome*100), 64); pw != r.outcome && !(pw != pw && r.outcome != r.outcome) {
						o.Failf("HTML report of %s: %s shows %.2f%%, direct evaluation gives %.2f%%", a.Name, r.name, r.outcome, w.outcome*100)
						return o
					}
					if i > 0 && !assetNaN && r.outcome > rows[i-1].outcome {
						o.Failf("HTML report of %s: ranking not in non-increasing outcome order: row %d (%s) %.2f%% comes after %.2f%% (%d workers)", a.Name, i, r.name, r.outcome, rows[i-1].outcome, c.Workers)
						return o
					}
					if w.outcome*100 > maxWant {
						maxWant = w.outcome * 100
					}
				}
				if pw, _ := strconv.ParseFloat(fmt.Sprintf("%.2f", maxWant), 64); !assetNaN && rows[0].outcome != pw {
					o.Failf("HTML report of %s: the entry presented as best shows %.2f%%, the maximal outcome is %.2f%%", a.Name, rows[0].outcome, maxWant)
					return o
				}
				best[a.Name] = rows[0].outcome
				if c.Report == "html+pages" {
					for _, s := range strategies {
						if _, err := os.Stat(filepath.Join(dir, fmt.Sprintf("%s - %s.html", a.Name, s.Name()))); err != nil {
							o.Failf("strategy page missing: %v", err)
							return o
						}
					}
				}
			}
			rows, err := parseRows(filepath.Join(dir, "index.html"))
			if err != nil {
				o.Failf("index.html: %v", err)
				return o
			}
			if len(rows) != len(c.Assets) {
				o.Failf("index.html lists %d assets, want %d", len(rows), len(c.Assets))
				return o
			}
			seen := map[string]bool{}
			for i, r := range rows {
				b, ok := best[r.name]
				if !ok || seen[r.name] {
					o.Failf("index.html: unexpected or duplicate asset row %q", r.name)
					return o
				}
				seen[r.name] = true
				if r.outcome != b && !anyNaN {
					o.Failf("index.html: asset %s shows %.2f%%, its best result is %.2f%%", r.name, r.outcome, b)
					return o
				}
				if i > 0 && !anyNaN && r.outcome > rows[i-1].outcome {
					o.Failf("index.html: ranking not in non-increasing order: row %d (%s) %.2f%% after %.2f%%", i, r.name, r.outcome, rows[i-1].outcome)
					return o
				}
			}
		}
	}
	o.NonTrivial = c.Workers >= 2 && len(c.Assets) >= 4 && nearTie
	o.Class("report:" + c.Report)
	if nearTie {
		o.Class("outcomes_closer_than_1_point")
	}
	o.Add("asset_strategy_pairs", len(c.Assets)*len(strategies))
	o.Key = fmt.Sprintf("%+v", c)
	return o
}

func first(x []string) string {
	if len(x) == 0 {
		return ""
	}
	return x[0]
}
func last(x []string) string {
	if len(x) == 0 {
		return ""
	}
	return x[len(x)-1]
}

func props() []engine.AnyProp {
	return []engine.AnyProp{engine.Prop[Case]{ID: "C13", Subject: "Backtest", Gen: genCase, Check: check}, cliProp()}
}

func TestC13(t *testing.T) { engine.RunAll(t, props(), false) }

func TestReplay(t *testing.T) { engine.Replay(t, "C13", props()) }
