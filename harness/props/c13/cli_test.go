package c13

import (
	"bytes"
	"fmt"
	"os"
	"os/exec"
	"path/filepath"
	"sort"
	"strconv"

	"github.com/cinar/indicator/v2/asset"
	"github.com/cinar/indicator/v2/backtest"
	"github.com/cinar/indicator/v2/helper"
	"github.com/cinar/indicator/v2/strategy"
	"github.com/cinar/indicator/v2/strategy/compound"
	"github.com/cinar/indicator/v2/strategy/momentum"
	"github.com/cinar/indicator/v2/strategy/trend"
	"github.com/cinar/indicator/v2/strategy/volatility"
	"github.com/cinar/indicator/v2/strategy/volume"
	"pgregory.net/rapid"
	"verif/harness/engine"
	"verif/harness/pipe"
)

// CLICase is one invocation of the indicator-backtest program (cmd/indicator-backtest, anchored by
// the property) on a generated file-system repository.
type CLICase struct {
	Assets   []AssetData `json:"assets"`
	Named    []int       `json:"named"` // indices of the assets named on the command line; none = all assets
	Workers  int         `json:"workers"`
	LastDays int         `json:"last_days"`
}

// cliStrategies is the strategy list the program documents: every registry.
func cliStrategies() []strategy.Strategy {
	var s []strategy.Strategy
	s = append(s, compound.AllStrategies()...)
	s = append(s, momentum.AllStrategies()...)
	s = append(s, strategy.AllStrategies()...)
	s = append(s, trend.AllStrategies()...)
	s = append(s, volatility.AllStrategies()...)
	s = append(s, volume.AllStrategies()...)
	return s
}

func sortedRows(rows []htmlRow) []string {
	out := make([]string, len(rows))
	for i, r := range rows {
		out[i] = fmt.Sprintf("%s=%.2f", r.name, r.outcome)
	}
	sort.Strings(out)
	return out
}

func cliProp() engine.AnyProp {
	return engine.Prop[CLICase]{ID: "C13", Subject: "CLI/indicator-backtest",
		Gen: func(t *rapid.T) CLICase {
			c := CLICase{Workers: rapid.IntRange(1, 6).Draw(t, "workers"), LastDays: rapid.SampledFrom([]int{365, 200}).Draw(t, "lastdays")}
			na := rapid.IntRange(1, 4).Draw(t, "assets")
			for i := 0; i < na; i++ {
				n := rapid.IntRange(60, 110).Draw(t, "n")
				a := AssetData{Name: fmt.Sprintf("asset%02d", i)}
				x := float64(rapid.IntRange(6400, 12800).Draw(t, "c0")) / 64
				for j := 0; j < n; j++ {
					x += float64(rapid.IntRange(-32, 32).Draw(t, "d")) / 64
					if x < 1 {
						x = 1
					}
					a.Closes = append(a.Closes, x)
				}
				c.Assets = append(c.Assets, a)
			}
			if rapid.Bool().Draw(t, "name_some") {
				for i := range c.Assets {
					if rapid.Bool().Draw(t, "named") {
						c.Named = append(c.Named, i)
					}
				}
			}
			return c
		},
		Check: func(c CLICase) engine.Outcome {
			var o engine.Outcome
			bin, err := engine.Binary("indicator-backtest", "github.com/cinar/indicator/v2/cmd/indicator-backtest")
			if err != nil {
				o.Failf("harness: %v", err)
				return o
			}
			dir, err := os.MkdirTemp("", "verif-c13-cli-")
			if err != nil {
				o.Failf("harness: %v", err)
				return o
			}
			defer os.RemoveAll(dir)
			repoDir, outCLI, outAPI := filepath.Join(dir, "repo"), filepath.Join(dir, "cli"), filepath.Join(dir, "api")
			for _, d := range []string{repoDir, outCLI, outAPI} {
				_ = os.MkdirAll(d, 0o700)
			}
			repo := asset.NewFileSystemRepository(repoDir)
			for _, a := range c.Assets {
				all, _ := a.snapshots(c.LastDays)
				if err := repo.Append(a.Name, helper.SliceToChan(all)); err != nil {
					o.Failf("harness: %v", err)
					return o
				}
			}
			var names []string
			for _, i := range c.Named {
				names = append(names, c.Assets[i].Name)
			}
			expect := names
			if len(expect) == 0 {
				for _, a := range c.Assets {
					expect = append(expect, a.Name)
				}
			}
			args := []string{"-repository-name", "filesystem", "-repository-config", repoDir, "-report-name", "html", "-report-config", outCLI,
				"-workers", strconv.Itoa(c.Workers), "-last", strconv.Itoa(c.LastDays)}
			args = append(args, names...)
			var stderr bytes.Buffer
			cmd := exec.Command(bin, args...)
			cmd.Stderr = &stderr
			if err, stuck := engine.RunProgram(cmd); stuck {
				o.Failf("indicator-backtest %v never exits (asleep, no CPU time consumed for 30 s): %s", args, tail(stderr.String()))
				return o
			} else if err != nil {
				o.Failf("indicator-backtest %v: %v: %s", args, err, tail(stderr.String()))
				return o
			}
			// the same run through the API
			h := backtest.NewHTMLReport(outAPI)
			h.WriteStrategyReports, h.Logger = false, quiet
			bt := backtest.NewBacktest(asset.NewFileSystemRepository(repoDir), h)
			bt.Workers, bt.LastDays, bt.Logger = c.Workers, c.LastDays, quiet
			bt.Names = append(bt.Names, names...)
			bt.Strategies = cliStrategies()
			var runErr error
			if verdict, detail := pipe.Call(func() { runErr = bt.Run() }); verdict != "ok" || runErr != nil {
				o.Failf("Backtest.Run through the API: %s %s %v", verdict, detail, runErr)
				return o
			}
			idxCLI, err1 := parseRows(filepath.Join(outCLI, "index.html"))
			idxAPI, err2 := parseRows(filepath.Join(outAPI, "index.html"))
			if err1 != nil || err2 != nil {
				o.Failf("index.html: %v / %v", err1, err2)
				return o
			}
			listed := map[string]int{}
			for i, r := range idxCLI {
				listed[r.name]++
				if i > 0 && r.outcome > idxCLI[i-1].outcome {
					o.Failf("indicator-backtest %v: index.html not in non-increasing order: %v", args, idxCLI)
					return o
				}
			}
			for _, nm := range expect {
				if listed[nm] != 1 {
					o.Failf("indicator-backtest %v (no names = every asset of the repository): asset %s is listed %d times in index.html (%d rows: %v)", args, nm, listed[nm], len(idxCLI), idxCLI)
					return o
				}
			}
			if len(idxCLI) != len(expect) || fmt.Sprint(sortedRows(idxCLI)) != fmt.Sprint(sortedRows(idxAPI)) {
				o.Failf("indicator-backtest %v: index.html lists %v, the same run through the API lists %v (expected assets %v)", args, sortedRows(idxCLI), sortedRows(idxAPI), expect)
				return o
			}
			ns := len(bt.Strategies)
			for _, nm := range expect {
				rc, err1 := parseRows(filepath.Join(outCLI, nm+".html"))
				ra, err2 := parseRows(filepath.Join(outAPI, nm+".html"))
				if err1 != nil || err2 != nil {
					o.Failf("indicator-backtest %v: page of %s: %v / %v", args, nm, err1, err2)
					return o
				}
				if len(rc) != ns || fmt.Sprint(sortedRows(rc)) != fmt.Sprint(sortedRows(ra)) {
					o.Failf("indicator-backtest %v: page of %s has %d rows (one per strategy = %d); program %v, API %v", args, nm, len(rc), ns, sortedRows(rc), sortedRows(ra))
					return o
				}
				for i := 1; i < len(rc); i++ {
					if rc[i].outcome > rc[i-1].outcome {
						o.Failf("indicator-backtest %v: page of %s not in non-increasing outcome order", args, nm)
						return o
					}
				}
			}
			o.NonTrivial = len(c.Assets) >= 2 && c.Workers >= 2
			if len(names) == 0 {
				o.Class("no_asset_named:all_assets")
			} else {
				o.Class("assets_named")
			}
			if c.Workers > len(expect) {
				o.Class("more_workers_than_assets")
			}
			o.Add("asset_strategy_pairs", len(expect)*ns)
			o.Key = fmt.Sprintf("%+v", c)
			return o
		}}
}

func tail(s string) string {
	if len(s) > 600 {
		return "..." + s[len(s)-600:]
	}
	return s
}
