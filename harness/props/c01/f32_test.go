package c01

import (
	"fmt"
	"math"

	"github.com/cinar/indicator/v2/trend"
	"pgregory.net/rapid"
	"verif/harness/engine"
	"verif/harness/gen"
	"verif/harness/pipe"
	"verif/harness/ref"
	"verif/harness/reg"
)

// The float32 instantiations of a dozen trend indicators against the same doc-comment references.
// Inputs come from the dyadic series classes (exactly representable in float32); the reference's
// float64 error bound is scaled by 2^29 (the ratio of the two unit round-offs) and one float32
// rounding of the result is added. Anything a type switch or a conversion does differently for
// float32 shows here.

type f32Entry struct {
	name  string // registry entry whose reference applies (single input X, periods only)
	build func(c reg.Config) (func(<-chan float32) []<-chan float32, int)
}

func one32(c <-chan float32) []<-chan float32 { return []<-chan float32{c} }

var f32Entries = []f32Entry{
	{"Sma", func(c reg.Config) (func(<-chan float32) []<-chan float32, int) {
		a := trend.NewSmaWithPeriod[float32](c.P[0])
		return func(in <-chan float32) []<-chan float32 { return one32(a.Compute(in)) }, a.IdlePeriod()
	}},
	{"Ema", func(c reg.Config) (func(<-chan float32) []<-chan float32, int) {
		a := trend.NewEmaWithPeriod[float32](c.P[0])
		a.Smoothing = float32(c.F[0])
		return func(in <-chan float32) []<-chan float32 { return one32(a.Compute(in)) }, a.IdlePeriod()
	}},
	{"Rma", func(c reg.Config) (func(<-chan float32) []<-chan float32, int) {
		a := trend.NewRmaWithPeriod[float32](c.P[0])
		return func(in <-chan float32) []<-chan float32 { return one32(a.Compute(in)) }, a.IdlePeriod()
	}},
	{"Wma", func(c reg.Config) (func(<-chan float32) []<-chan float32, int) {
		a := trend.NewWmaWith[float32](c.P[0])
		return func(in <-chan float32) []<-chan float32 { return one32(a.Compute(in)) }, a.IdlePeriod()
	}},
	{"MovingSum", func(c reg.Config) (func(<-chan float32) []<-chan float32, int) {
		a := trend.NewMovingSumWithPeriod[float32](c.P[0])
		return func(in <-chan float32) []<-chan float32 { return one32(a.Compute(in)) }, a.IdlePeriod()
	}},
	{"MovingMax", func(c reg.Config) (func(<-chan float32) []<-chan float32, int) {
		a := trend.NewMovingMaxWithPeriod[float32](c.P[0])
		return func(in <-chan float32) []<-chan float32 { return one32(a.Compute(in)) }, a.IdlePeriod()
	}},
	{"MovingMin", func(c reg.Config) (func(<-chan float32) []<-chan float32, int) {
		a := trend.NewMovingMinWithPeriod[float32](c.P[0])
		return func(in <-chan float32) []<-chan float32 { return one32(a.Compute(in)) }, a.IdlePeriod()
	}},
	{"Trima", func(c reg.Config) (func(<-chan float32) []<-chan float32, int) {
		a := trend.NewTrima[float32]()
		a.Period = c.P[0]
		return func(in <-chan float32) []<-chan float32 { return one32(a.Compute(in)) }, a.IdlePeriod()
	}},
	{"Tema", func(c reg.Config) (func(<-chan float32) []<-chan float32, int) {
		a := trend.NewTema[float32]()
		a.Ema1.Period, a.Ema2.Period, a.Ema3.Period = c.P[0], c.P[1], c.P[2]
		return func(in <-chan float32) []<-chan float32 { return one32(a.Compute(in)) }, a.IdlePeriod()
	}},
	{"Macd", func(c reg.Config) (func(<-chan float32) []<-chan float32, int) {
		a := trend.NewMacdWithPeriod[float32](c.P[0], c.P[1], c.P[2])
		return func(in <-chan float32) []<-chan float32 { m, s := a.Compute(in); return []<-chan float32{m, s} }, a.IdlePeriod()
	}},
	{"Trix", func(c reg.Config) (func(<-chan float32) []<-chan float32, int) {
		a := trend.NewTrix[float32]()
		a.Period = c.P[0]
		return func(in <-chan float32) []<-chan float32 { return one32(a.Compute(in)) }, a.IdlePeriod()
	}},
}

// F32Case is a configuration and a dyadic series.
type F32Case struct {
	Cfg reg.Config `json:"cfg"`
	X   []float64  `json:"x"`
}

func f32Prop(e f32Entry) engine.AnyProp {
	ind, _ := reg.ByName(e.name)
	return engine.Prop[F32Case]{
		ID: "C01", Subject: "float32/" + e.name,
		Gen: func(t *rapid.T) F32Case {
			cfg := ind.GenConfig(t, 8)
			cfg.Alt, cfg.Plain, cfg.PrevP, cfg.PrevF, cfg.PrevN, cfg.S = false, false, nil, nil, 0, nil
			if cfg.P == nil || len(cfg.P) < len(ind.Params) {
				cfg = ind.DefaultConfig()
			}
			w := ind.Idle(cfg)
			n := rapid.IntRange(0, 2*w+12).Draw(t, "n")
			b := gen.GenBarsOf(t, n, rapid.SampledFrom([]string{"walk", "flat", "ties", "zeros", "sawtooth"}).Draw(t, "class"))
			x := b.Unscaled().X
			if e.name == "Trix" { // a ratio: positive values
				x = b.Unscaled().Close
			}
			return F32Case{Cfg: cfg, X: x}
		},
		Check: func(c F32Case) engine.Outcome {
			var o engine.Outcome
			in32 := make([]float32, len(c.X))
			for i, v := range c.X {
				in32[i] = float32(v)
				if float64(in32[i]) != v {
					o.Failf("harness: input %v is not exactly representable in float32", v)
					return o
				}
			}
			idle := 0
			res := pipe.Run([][]float32{in32}, pipe.Opts{}, func(cs []<-chan float32) []<-chan float32 {
				compute, w := e.build(c.Cfg)
				idle = w
				return compute(cs[0])
			})
			if !res.OK() {
				o.Failf("%s[float32] %v n=%d: %s: %s", e.name, c.Cfg, len(c.X), res.Verdict, res.Detail)
				return o
			}
			refs := ind.Ref(c.Cfg, reg.In{reg.X: ref.Lift(c.X)})
			compared := 0
			for j, rs := range refs {
				if j >= len(res.Outs) {
					break
				}
				for p := rs.At; p < rs.End(); p++ {
					k := p - idle
					if k < 0 || k >= len(res.Outs[j]) {
						continue
					}
					b, _ := rs.Get(p)
					if b.IsBad() {
						continue
					}
					got := float64(res.Outs[j][k])
					tol := ref.Slack*(b.E*0x1p29) + math.Abs(b.V)*0x1p-20 + 1e-30
					// every intermediate is rounded to float32 as well: allow the magnitude of the
					// inputs that entered the window
					scale := 0.0
					for q := p; q >= 0 && q > p-64; q-- {
						if a := math.Abs(c.X[q]); a > scale {
							scale = a
						}
					}
					tol += scale * 0x1p-17
					compared++
					if math.IsNaN(got) || math.Abs(got-b.V) > tol {
						o.Failf("%s[float32] %v n=%d: value #%d (input position %d) is %v, documented formula gives %v (allowance %.3g)", e.name, c.Cfg, len(c.X), k, p, got, b.V, tol)
						return o
					}
				}
			}
			o.NonTrivial = compared >= 2
			o.Add("positions_compared", compared)
			o.Key = fmt.Sprint(c.Cfg, c.X)
			return o
		},
	}
}
