// Package c01: indicator values equal their documented formulas on every window.
package c01

import (
	"fmt"
	"hash/fnv"
	"math"
	"testing"

	"github.com/cinar/indicator/v2/trend"
	"pgregory.net/rapid"
	"verif/harness/engine"
	"verif/harness/gen"
	"verif/harness/pipe"
	"verif/harness/ref"
	"verif/harness/reg"
)

func TestMain(m *testing.M) { engine.Main(m) }

// Case is one generated indicator execution.
type Case struct {
	Cfg  reg.Config `json:"cfg"`
	Bars gen.Bars   `json:"bars"`
}

func hashBars(b gen.Bars) uint64 {
	h := fnv.New64a()
	for _, s := range [][]float64{b.Open, b.High, b.Low, b.Close, b.Volume, b.X, b.Y} {
		for _, v := range s {
			u := math.Float64bits(v)
			var buf [8]byte
			for i := 0; i < 8; i++ {
				buf[i] = byte(u >> (8 * i))
			}
			_, _ = h.Write(buf[:])
		}
	}
	return h.Sum64()
}

type cmpResult struct {
	compared, exempt int
	// exemptNonFinite counts exempt positions at which the implementation emitted NaN or Inf.
	exemptNonFinite int
	mismatch        string
}

// compare checks every output against a set of reference series by absolute position.
func compare(ind reg.Ind, outs [][]float64, idle int, refs []ref.S) cmpResult {
	var r cmpResult
	for j, rs := range refs {
		if j >= len(outs) {
			break
		}
		for p := rs.At; p < rs.End(); p++ {
			k := p - idle
			if k < 0 || k >= len(outs[j]) {
				continue
			}
			b, _ := rs.Get(p)
			if b.IsBad() {
				r.exempt++
				if v := outs[j][k]; math.IsNaN(v) || math.IsInf(v, 0) {
					r.exemptNonFinite++
				}
				continue
			}
			r.compared++
			if !b.Agrees(outs[j][k]) && r.mismatch == "" {
				r.mismatch = fmt.Sprintf("output %q value #%d (input position %d) is %v, documented formula gives %v (error bound %.3g)", ind.Outs[j], k, p, outs[j][k], b.V, b.E)
			}
		}
	}
	return r
}

func prop(ind reg.Ind) engine.AnyProp {
	return engine.Prop[Case]{
		ID: "C01", Subject: ind.Name,
		Gen: func(t *rapid.T) Case {
			cfg := ind.GenConfig(t, 0)
			w := ind.Idle(cfg)
			n := gen.GenLen(t, w, 260)
			if engine.OncePerRun("C01-long/" + ind.Name) {
				n = 1<<15 + 40 // every indicator once per run: beyond a 15-bit counter
			}
			b := gen.GenBars(t, n)
			if rapid.IntRange(0, 11).Draw(t, "columns_unordered") == 5 {
				b = gen.Unordered(t, b)
			}
			return Case{Cfg: cfg, Bars: b}
		},
		Check: func(c Case) engine.Outcome {
			var o engine.Outcome
			res, idle := ind.Run(c.Cfg, c.Bars, pipe.Opts{})
			if !res.OK() {
				o.Failf("%s %v n=%d: pipeline did not terminate cleanly: %s: %s", ind.Name, c.Cfg, c.Bars.Len(), res.Verdict, res.Detail)
				return o
			}
			in := ind.RefIn(c.Bars)
			doc := compare(ind, res.Outs, idle, ind.Ref(c.Cfg, in))
			o.Add("positions_compared", doc.compared)
			o.Add("positions_exempt", doc.exempt)
			o.Class("series:" + c.Bars.Class)
			ok := doc.mismatch == ""
			if !ok && ind.Alt != nil {
				if alt := compare(ind, res.Outs, idle, ind.Alt(c.Cfg, in)); alt.mismatch == "" {
					ok = true
				}
			}
			if !ok {
				if ind.Defect != nil {
					def := compare(ind, res.Outs, idle, ind.Defect.Model(c.Cfg, in))
					if def.mismatch == "" {
						// explained by the recorded defect model (positions where that model is itself
						// ill-conditioned are exempt, as they are for the documented formula)
						o.KnownAs(ind.Defect.Key)
						if def.compared == 0 {
							o.Class("known_finding_case_with_all_model_positions_exempt")
						}
					} else {
						o.Failf("%s %v n=%d: %s; nor does the recorded defect model %q explain it (%s)", ind.Name, c.Cfg, c.Bars.Len(), doc.mismatch, ind.Defect.Key, def.mismatch)
					}
				} else {
					o.Failf("%s %v n=%d (idle %d): %s", ind.Name, c.Cfg, c.Bars.Len(), idle, doc.mismatch)
				}
			}
			o.NonTrivial = c.Bars.Len() > idle && doc.compared > 0
			if doc.compared > 0 && doc.exempt > 0 {
				o.Class("has_exempt_positions")
			}
			for i, p := range ind.Params {
				if i < len(c.Cfg.P) && c.Cfg.P[i] > p.Default {
					o.Class("period_beyond_default")
					break
				}
			}
			o.Key = fmt.Sprint(c.Cfg, c.Bars.Len(), hashBars(c.Bars))
			return o
		},
	}
}

func props() []engine.AnyProp {
	var ps []engine.AnyProp
	for _, ind := range reg.All() {
		ps = append(ps, prop(ind))
	}
	ps = append(ps, intProps()...)
	for _, e := range f32Entries {
		ps = append(ps, f32Prop(e))
	}
	return ps
}

func TestC01(t *testing.T) { engine.RunAll(t, props(), false) }

func TestReplay(t *testing.T) { engine.Replay(t, "C01", props()) }

// ---- structural indicators over int (exact comparison) ----

type intCase struct {
	P  int   `json:"p"`
	Xs []int `json:"xs"`
}

func intProps() []engine.AnyProp {
	type spec struct {
		name  string
		run   func(p int, c <-chan int) <-chan int
		model func(p int, w []int) int
	}
	specs := []spec{
		{"MovingSum[int]", func(p int, c <-chan int) <-chan int { return trend.NewMovingSumWithPeriod[int](p).Compute(c) }, func(p int, w []int) int {
			s := 0
			for _, x := range w {
				s += x
			}
			return s
		}},
		{"MovingMax[int]", func(p int, c <-chan int) <-chan int { return trend.NewMovingMaxWithPeriod[int](p).Compute(c) }, func(p int, w []int) int {
			m := w[0]
			for _, x := range w {
				if x > m {
					m = x
				}
			}
			return m
		}},
		{"MovingMin[int]", func(p int, c <-chan int) <-chan int { return trend.NewMovingMinWithPeriod[int](p).Compute(c) }, func(p int, w []int) int {
			m := w[0]
			for _, x := range w {
				if x < m {
					m = x
				}
			}
			return m
		}},
		{"Sma[int]", func(p int, c <-chan int) <-chan int { return trend.NewSmaWithPeriod[int](p).Compute(c) }, func(p int, w []int) int {
			s := 0
			for _, x := range w {
				s += x
			}
			return s / p
		}},
	}
	var out []engine.AnyProp
	for _, sp := range specs {
		sp := sp
		out = append(out, engine.Prop[intCase]{
			ID: "C01", Subject: sp.name,
			Gen: func(t *rapid.T) intCase {
				c := intCase{P: rapid.IntRange(1, 9).Draw(t, "p")}
				vals := rapid.SampledFrom([]int{0, 0, 1, -1, 2, 5, -5, 7, 100, -100, math.MaxInt32, math.MinInt32}).Draw
				n := rapid.IntRange(0, 3*c.P+6).Draw(t, "n")
				for i := 0; i < n; i++ {
					if rapid.Bool().Draw(t, "small") {
						c.Xs = append(c.Xs, rapid.IntRange(-3, 3).Draw(t, "x"))
					} else {
						c.Xs = append(c.Xs, vals(t, "xv"))
					}
				}
				return c
			},
			Check: func(c intCase) engine.Outcome {
				var o engine.Outcome
				res := pipe.Run1([][]int{c.Xs}, pipe.Opts{}, func(cs []<-chan int) <-chan int { return sp.run(c.P, cs[0]) })
				if !res.OK() {
					o.Failf("%s period %d on %v: %s: %s", sp.name, c.P, c.Xs, res.Verdict, res.Detail)
					return o
				}
				var want []int
				for i := c.P - 1; i < len(c.Xs); i++ {
					want = append(want, sp.model(c.P, c.Xs[i-c.P+1:i+1]))
				}
				if len(res.Outs[0]) != len(want) {
					o.Failf("%s period %d on %v: %d values %v, want %d %v", sp.name, c.P, c.Xs, len(res.Outs[0]), res.Outs[0], len(want), want)
					return o
				}
				for i := range want {
					if res.Outs[0][i] != want[i] {
						o.Failf("%s period %d on %v: value #%d is %d, the window ending at position %d gives %d", sp.name, c.P, c.Xs, i, res.Outs[0][i], i+c.P-1, want[i])
						return o
					}
				}
				o.NonTrivial = len(want) > 0
				o.Add("positions_compared", len(want))
				o.Key = fmt.Sprint(c.P, c.Xs)
				return o
			},
		})
	}
	return out
}
