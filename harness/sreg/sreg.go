// Package sreg is the registry of strategies: how to build each one from a generated
// configuration, its documented warm-up, and its documented decision rule evaluated on the
// library's own indicator computed by the harness from the documented price fields.
package sreg

import (
	"math"

	"github.com/cinar/indicator/v2/asset"
	"github.com/cinar/indicator/v2/strategy"
	"pgregory.net/rapid"
	"verif/harness/gen"
	"verif/harness/pipe"
	"verif/harness/reg"
)

// Fields are the price/volume columns of a snapshot series.
type Fields struct{ O, H, L, C, V []float64 }

// FieldsOf extracts the columns.
func FieldsOf(sn []*asset.Snapshot) Fields {
	var f Fields
	for _, s := range sn {
		f.O = append(f.O, s.Open)
		f.H = append(f.H, s.High)
		f.L = append(f.L, s.Low)
		f.C = append(f.C, s.Close)
		f.V = append(f.V, s.Volume)
	}
	return f
}

// FieldsOfBars extracts the columns of generated bars.
func FieldsOfBars(b gen.Bars) Fields {
	return Fields{O: b.Open, H: b.High, L: b.Low, C: b.Close, V: b.Volume}
}

// Expect is the documented recommendation for one position; Exempt marks positions where the
// compared quantities are equal within rounding or undefined.
type Expect struct {
	A      strategy.Action
	Exempt bool
}

// Strat is one registry entry.
type Strat struct {
	Name    string
	Params  []reg.Param
	FParams []float64
	Fix     func(c *reg.Config)
	Build   func(c reg.Config) strategy.Strategy
	// Warm is the documented warm-up: the number of leading snapshots for which only Hold can be
	// recommended (indicator warm-up, +1 for cross-over rules that need a previous value).
	Warm func(s strategy.Strategy) int
	// Rule evaluates the documented decision rule; nil for strategies without a value rule.
	Rule func(s strategy.Strategy, f Fields) []Expect
	Doc  string
	// LateKey: known-finding key of a strategy that emits n+1 actions, every one a day late.
	LateKey string
	// TerminationOnly: an out-of-domain configuration that only the termination property (C03)
	// looks at (its alignment is not claimed, so no look-ahead / reuse / unit comparisons).
	TerminationOnly bool
	// ThresholdPair: F[0], F[1] are a buy/sell threshold pair ordered by Fix (GenConfigLoose).
	ThresholdPair bool
	// DefectKey / DefectRule: known contradiction of the documented rule (C06).
	DefectKey  string
	DefectRule func(s strategy.Strategy, f Fields) []Expect
	// InRegistry says the default configuration is returned by an AllStrategies function.
	InRegistry bool
	// Plain is the plain constructor (default configuration), when there is one.
	Plain func() strategy.Strategy
	// PriceInvariant / VolumeInvariant: recommendations do not depend on the unit (C18).
	NotUnitInvariant bool
}

// GenConfig draws an admissible configuration with small periods (so that warm-ups stay short),
// the default configuration in 10 % of the draws.
func (st Strat) GenConfig(t *rapid.T) reg.Config {
	c := reg.Config{P: make([]int, len(st.Params))}
	def := len(st.Params)+len(st.FParams) > 0 && rapid.IntRange(0, 9).Draw(t, "default_cfg") == 0
	for i, p := range st.Params {
		if def {
			c.P[i] = p.Default
		} else {
			c.P[i] = rapid.IntRange(1, 9).Draw(t, p.Name)
		}
	}
	for i, d := range st.FParams {
		if def {
			c.F = append(c.F, d)
		} else {
			c.F = append(c.F, d*float64(rapid.IntRange(4, 12).Draw(t, "f"+string(rune('0'+i))))/8)
		}
	}
	if st.Fix != nil {
		st.Fix(&c)
	}
	if st.ThresholdPair && len(c.F) >= 2 && !def && rapid.IntRange(0, 11).Draw(t, "both_thresholds_zero") == 5 {
		c.F[0], c.F[1] = 0, 0 // the zero value of both fields: a band of width 0 at the bottom of the scale
	}
	return c
}

// GenConfigLoose is GenConfig for the properties that make no use of the decision rule (counts,
// warm-up, termination, no look-ahead): where the first two float parameters are a pair of
// thresholds that GenConfig keeps in the conventional order (so that the rule oracle is
// unambiguous), they are swapped in a third of the draws - an empty or inverted hold band is a
// configuration like any other for those properties.
func (st Strat) GenConfigLoose(t *rapid.T) reg.Config {
	c := st.GenConfig(t)
	if st.ThresholdPair && len(c.F) >= 2 && rapid.IntRange(0, 2).Draw(t, "thresholds_swapped") == 0 {
		c.F[0], c.F[1] = c.F[1], c.F[0]
		if rapid.Bool().Draw(t, "thresholds_equal") {
			c.F[1] = c.F[0]
		}
		if rapid.IntRange(0, 3).Draw(t, "thresholds_zero") == 2 {
			c.F[0], c.F[1] = 0, 0 // what a struct literal leaves
		}
	}
	return c
}

// GenConfigAny is GenConfig without the documented ordering constraints in a quarter of the draws
// (for the properties that quantify over all configurations).
func (st Strat) GenConfigAny(t *rapid.T) reg.Config {
	if st.Fix == nil || rapid.IntRange(0, 3).Draw(t, "unordered") != 0 {
		return st.GenConfig(t)
	}
	fix := st.Fix
	st.Fix = nil
	c := st.GenConfig(t)
	st.Fix = fix
	return c
}

// DefaultConfig is the configuration of the plain constructor.
func (st Strat) DefaultConfig() reg.Config {
	c := reg.Config{}
	for _, p := range st.Params {
		c.P = append(c.P, p.Default)
	}
	c.F = append(c.F, st.FParams...)
	if st.Fix != nil {
		st.Fix(&c)
	}
	return c
}

// ps is a position-indexed series.
type ps struct {
	at int
	v  []float64
}

func (s ps) get(i int) (float64, bool) {
	j := i - s.at
	if j < 0 || j >= len(s.v) {
		return 0, false
	}
	return s.v[j], true
}

func col(v []float64) ps { return ps{0, v} }

func prevOf(s ps) ps {
	if len(s.v) == 0 {
		return ps{at: s.at + 1}
	}
	return ps{at: s.at + 1, v: s.v[:len(s.v)-1]}
}

// ind runs a library indicator on slices and anchors its outputs at its idle period.
func ind(idle int, ins [][]float64, build func(cs []<-chan float64) []<-chan float64) []ps {
	res := pipe.Run(ins, pipe.Opts{}, build)
	out := make([]ps, len(res.Outs))
	for i := range res.Outs {
		out[i] = ps{at: idle, v: res.Outs[i]}
	}
	if !res.OK() {
		for i := range out {
			out[i] = ps{at: idle}
		}
	}
	return out
}

func ind1(idle int, ins [][]float64, build func(cs []<-chan float64) <-chan float64) ps {
	return ind(idle, ins, func(cs []<-chan float64) []<-chan float64 { return []<-chan float64{build(cs)} })[0]
}

// ev is the evaluation context of one position: comparisons record ties.
type ev struct{ tie bool }

func (e *ev) cmp(a, b float64) int {
	if math.IsNaN(a) || math.IsNaN(b) {
		e.tie = true
		return 0
	}
	if math.IsInf(a, 0) || math.IsInf(b, 0) {
		if a == b {
			e.tie = true
			return 0
		}
	} else if math.Abs(a-b) <= 1e-9*math.Max(1, math.Max(math.Abs(a), math.Abs(b))) {
		e.tie = true
		return 0
	}
	if a < b {
		return -1
	}
	return 1
}
func (e *ev) gt(a, b float64) bool { return e.cmp(a, b) > 0 }
func (e *ev) lt(a, b float64) bool { return e.cmp(a, b) < 0 }

func sign3(buy, sell bool) strategy.Action {
	if buy {
		return strategy.Buy
	}
	if sell {
		return strategy.Sell
	}
	return strategy.Hold
}

// rule applies f at every position where all series are defined; Hold elsewhere.
func rule(n int, f func(e *ev, x []float64) strategy.Action, ss ...ps) []Expect {
	out := make([]Expect, n)
	xs := make([]float64, len(ss))
	for i := 0; i < n; i++ {
		ok := true
		for j, s := range ss {
			if xs[j], ok = s.get(i); !ok {
				break
			}
		}
		if ok {
			e := &ev{}
			a := f(e, xs)
			out[i] = Expect{A: a, Exempt: e.tie}
		}
	}
	return out
}

// delay shifts expectations one position to the right (the recorded one-day lag).
func delay(x []Expect) []Expect {
	out := make([]Expect, len(x)+1)
	copy(out[1:], x)
	return out
}
