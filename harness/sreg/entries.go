package sreg

import (
	"github.com/cinar/indicator/v2/momentum"
	"github.com/cinar/indicator/v2/strategy"
	smom "github.com/cinar/indicator/v2/strategy/momentum"
	strend "github.com/cinar/indicator/v2/strategy/trend"
	svola "github.com/cinar/indicator/v2/strategy/volatility"
	svolu "github.com/cinar/indicator/v2/strategy/volume"
	"github.com/cinar/indicator/v2/trend"
	"github.com/cinar/indicator/v2/volatility"
	"github.com/cinar/indicator/v2/volume"
	"verif/harness/reg"
)

type cs = []<-chan float64

func per(name string, def int) reg.Param { return reg.Param{Name: name, Default: def} }

func sort2(a, b *int) {
	if *a > *b {
		*a, *b = *b, *a
	}
}

// maOf builds one of the library's moving averages (every type that satisfies trend.Ma) for the
// strategies whose moving average is an exported interface field. kind 0 is never passed (it
// means: keep what the constructor installed).
func maOf(kind, period int) trend.Ma[float64] {
	switch kind {
	case 1:
		return trend.NewSmaWithPeriod[float64](period)
	case 2:
		return trend.NewEmaWithPeriod[float64](period)
	case 3:
		return trend.NewSmmaWithPeriod[float64](period)
	case 4:
		return trend.NewWmaWith[float64](period)
	case 5:
		if period >= 4 {
			return trend.NewHmaWithPeriod[float64](period)
		}
	}
	return trend.NewKamaWith[float64](period, 2, 30)
}

func maxInt(xs ...int) int {
	m := xs[0]
	for _, x := range xs[1:] {
		if x > m {
			m = x
		}
	}
	return m
}

// Base returns every base strategy.
func Base() []Strat {
	out := base()
	for i := range out {
		if f, ok := plain[out[i].Name]; ok {
			out[i].Plain = f
		}
	}
	return out
}

var plain = map[string]func() strategy.Strategy{
	"BuyAndHold":                   func() strategy.Strategy { return strategy.NewBuyAndHoldStrategy() },
	"Apo":                          func() strategy.Strategy { return strend.NewApoStrategy() },
	"Aroon":                        func() strategy.Strategy { return strend.NewAroonStrategy() },
	"Bop":                          func() strategy.Strategy { return strend.NewBopStrategy() },
	"Cci":                          func() strategy.Strategy { return strend.NewCciStrategy() },
	"Dema":                         func() strategy.Strategy { return strend.NewDemaStrategy() },
	"Envelope":                     func() strategy.Strategy { return strend.NewEnvelopeStrategy() },
	"GoldenCross":                  func() strategy.Strategy { return strend.NewGoldenCrossStrategy() },
	"Kama":                         func() strategy.Strategy { return strend.NewKamaStrategy() },
	"Kdj":                          func() strategy.Strategy { return strend.NewKdjStrategy() },
	"Macd":                         func() strategy.Strategy { return strend.NewMacdStrategy() },
	"Qstick":                       func() strategy.Strategy { return strend.NewQstickStrategy() },
	"Smma":                         func() strategy.Strategy { return strend.NewSmmaStrategy() },
	"Alligator":                    func() strategy.Strategy { return strend.NewAlligatorStrategy() },
	"Trima":                        func() strategy.Strategy { return strend.NewTrimaStrategy() },
	"TripleMovingAverageCrossover": func() strategy.Strategy { return strend.NewTripleMovingAverageCrossoverStrategy() },
	"Trix":                         func() strategy.Strategy { return strend.NewTrixStrategy() },
	"Tsi":                          func() strategy.Strategy { return strend.NewTsiStrategy() },
	"Vwma":                         func() strategy.Strategy { return strend.NewVwmaStrategy() },
	"WeightedClose":                func() strategy.Strategy { return strend.NewWeightedCloseStrategy() },
	"AwesomeOscillator":            func() strategy.Strategy { return smom.NewAwesomeOscillatorStrategy() },
	"Rsi":                          func() strategy.Strategy { return smom.NewRsiStrategy() },
	"StochasticRsi":                func() strategy.Strategy { return smom.NewStochasticRsiStrategy() },
	"TripleRsi":                    func() strategy.Strategy { return smom.NewTripleRsiStrategy() },
	"BollingerBands":               func() strategy.Strategy { return svola.NewBollingerBandsStrategy() },
	"SuperTrendHma":                func() strategy.Strategy { return svola.NewSuperTrendStrategy() },
	"ChaikinMoneyFlow":             func() strategy.Strategy { return svolu.NewChaikinMoneyFlowStrategy() },
	"EaseOfMovement":               func() strategy.Strategy { return svolu.NewEaseOfMovementStrategy() },
	"ForceIndex":                   func() strategy.Strategy { return svolu.NewForceIndexStrategy() },
	"MoneyFlowIndex":               func() strategy.Strategy { return svolu.NewMoneyFlowIndexStrategy() },
	"NegativeVolumeIndex":          func() strategy.Strategy { return svolu.NewNegativeVolumeIndexStrategy() },
	"WeightedAveragePrice":         func() strategy.Strategy { return svolu.NewWeightedAveragePriceStrategy() },
}

// Extra returns configurations that are valid inputs of the API but lie outside the documented
// usage on which the warm-up and rule oracles (C05, C06, C14) are defined; they take part in the
// reference-free properties only (C03, C04, C09, C18).
func Extra() []Strat {
	return []Strat{
		{
			// DemaStrategy with the two DEMAs in any order (the documented use has Dema1 faster)
			Name: "DemaAnyOrder", Params: []reg.Param{per("d1e1", 5), per("d1e2", 5), per("d2e1", 35), per("d2e2", 35)},
			Build: func(c reg.Config) strategy.Strategy {
				s := strend.NewDemaStrategy()
				s.Dema1.Ema1.Period, s.Dema1.Ema2.Period, s.Dema2.Ema1.Period, s.Dema2.Ema2.Period = c.P[0], c.P[1], c.P[2], c.P[3]
				return s
			},
			Warm: func(s strategy.Strategy) int {
				d := s.(*strend.DemaStrategy)
				return maxInt(d.Dema1.IdlePeriod(), d.Dema2.IdlePeriod())
			},
			Doc: "no rule oracle: reference-free properties only",
		},
		{
			// ApoStrategy whose fast period is above the slow one, by up to the slow period (the code
			// buffers SlowPeriod values, which is what such a pair needs; the documented use has
			// fast < slow). Only the properties that make no use of warm-up or rule look at it.
			Name: "ApoFastAboveSlow", TerminationOnly: true, Params: []reg.Param{per("slow", 14), per("excess", 2)},
			Build: func(c reg.Config) strategy.Strategy {
				s := strend.NewApoStrategy()
				excess := 1 + (c.P[1]-1)%c.P[0]
				s.Apo.FastPeriod, s.Apo.SlowPeriod = c.P[0]+excess, c.P[0]
				return s
			},
			Warm: func(s strategy.Strategy) int {
				a := s.(*strend.ApoStrategy).Apo
				return maxInt(a.FastPeriod, a.SlowPeriod)
			},
			Doc: "no rule oracle: reference-free properties only",
		},
	}
}

func base() []Strat {
	return []Strat{
		{
			Name: "BuyAndHold", InRegistry: true,
			Build: func(c reg.Config) strategy.Strategy { return strategy.NewBuyAndHoldStrategy() },
			Warm:  func(s strategy.Strategy) int { return 0 },
			Doc:   "acquiring and indefinitely retaining an asset: Buy on the first snapshot, Hold afterwards",
			Rule: func(s strategy.Strategy, f Fields) []Expect {
				out := make([]Expect, len(f.C))
				if len(out) > 0 {
					out[0].A = strategy.Buy
				}
				return out
			},
		},
		{
			Name: "Apo", InRegistry: true, Params: []reg.Param{per("fast", 14), per("slow", 30)},
			Fix: func(c *reg.Config) { sort2(&c.P[0], &c.P[1]) },
			Build: func(c reg.Config) strategy.Strategy {
				s := strend.NewApoStrategy()
				s.Apo.FastPeriod, s.Apo.SlowPeriod = c.P[0], c.P[1]
				return s
			},
			Warm: func(s strategy.Strategy) int { return s.(*strend.ApoStrategy).Apo.SlowPeriod },
			Doc:  "An APO value crossing above zero suggests a bullish trend, crossing below zero a bearish trend (cross-over of consecutive values: warm-up = slow period)",
			Rule: func(s strategy.Strategy, f Fields) []Expect {
				a := s.(*strend.ApoStrategy).Apo
				v := ind1(a.SlowPeriod-1, [][]float64{f.C}, func(c cs) <-chan float64 { return a.Compute(c[0]) })
				return rule(len(f.C), func(e *ev, x []float64) strategy.Action {
					return sign3(e.cmp(x[0], 0) >= 0 && e.lt(x[1], 0), e.cmp(x[0], 0) <= 0 && e.gt(x[1], 0))
				}, v, prevOf(v))
			},
		},
		{
			Name: "Aroon", InRegistry: true, Params: []reg.Param{per("period", 25)},
			Build: func(c reg.Config) strategy.Strategy {
				s := strend.NewAroonStrategy()
				s.Aroon.Period = c.P[0]
				return s
			},
			Warm: func(s strategy.Strategy) int { return s.(*strend.AroonStrategy).Aroon.Period - 1 },
			Doc:  "When Aroon Up exceeds Aroon Down, bullish; when Aroon Down surpasses Aroon Up, bearish (Aroon over highs and lows)",
			Rule: func(s strategy.Strategy, f Fields) []Expect {
				a := s.(*strend.AroonStrategy).Aroon
				m := ind(a.Period-1, [][]float64{f.H, f.L}, func(c cs) cs { u, d := a.Compute(c[0], c[1]); return cs{u, d} })
				return rule(len(f.C), func(e *ev, x []float64) strategy.Action { return sign3(e.gt(x[0], x[1]), e.gt(x[1], x[0])) }, m...)
			},
		},
		{
			Name: "Bop", InRegistry: true,
			Build: func(c reg.Config) strategy.Strategy { return strend.NewBopStrategy() },
			Warm:  func(s strategy.Strategy) int { return 0 },
			Doc:   "A positive BoP value suggests an upward trend, a negative value a downward trend",
			Rule: func(s strategy.Strategy, f Fields) []Expect {
				b := s.(*strend.BopStrategy).Bop
				v := ind1(0, [][]float64{f.O, f.H, f.L, f.C}, func(c cs) <-chan float64 { return b.Compute(c[0], c[1], c[2], c[3]) })
				return rule(len(f.C), func(e *ev, x []float64) strategy.Action { return sign3(e.gt(x[0], 0), e.lt(x[0], 0)) }, v)
			},
		},
		{
			Name: "Cci", InRegistry: true, Params: []reg.Param{per("period", 20)},
			Build: func(c reg.Config) strategy.Strategy {
				s := strend.NewCciStrategy()
				s.Cci.Period = c.P[0]
				return s
			},
			Warm: func(s strategy.Strategy) int { return s.(*strend.CciStrategy).Cci.IdlePeriod() },
			Doc:  "CCI of highs, lows and closings: Buy at or above 100, Sell at or below -100",
			Rule: func(s strategy.Strategy, f Fields) []Expect {
				c := s.(*strend.CciStrategy).Cci
				v := ind1(c.IdlePeriod(), [][]float64{f.H, f.L, f.C}, func(x cs) <-chan float64 { return c.Compute(x[0], x[1], x[2]) })
				return rule(len(f.C), func(e *ev, x []float64) strategy.Action { return sign3(e.cmp(x[0], 100) >= 0, e.cmp(x[0], -100) <= 0) }, v)
			},
			DefectKey: "CciStrategy/high-fed-into-all-three-inputs",
			DefectRule: func(s strategy.Strategy, f Fields) []Expect {
				c := s.(*strend.CciStrategy).Cci
				v := ind1(c.IdlePeriod(), [][]float64{f.H, f.H, f.H}, func(x cs) <-chan float64 { return c.Compute(x[0], x[1], x[2]) })
				return rule(len(f.C), func(e *ev, x []float64) strategy.Action { return sign3(e.cmp(x[0], 100) >= 0, e.cmp(x[0], -100) <= 0) }, v)
			},
		},
		{
			Name: "Dema", InRegistry: true, Params: []reg.Param{per("d1e1", 5), per("d1e2", 5), per("d2e1", 35), per("d2e2", 35)},
			Fix: func(c *reg.Config) {
				// the slower DEMA must not warm up before the faster one (the code skips by Dema2's idle period)
				if c.P[0]+c.P[1] > c.P[2]+c.P[3] {
					c.P[0], c.P[1], c.P[2], c.P[3] = c.P[2], c.P[3], c.P[0], c.P[1]
				}
			},
			Build: func(c reg.Config) strategy.Strategy {
				s := strend.NewDemaStrategy()
				s.Dema1.Ema1.Period, s.Dema1.Ema2.Period, s.Dema2.Ema1.Period, s.Dema2.Ema2.Period = c.P[0], c.P[1], c.P[2], c.P[3]
				return s
			},
			Warm: func(s strategy.Strategy) int { return s.(*strend.DemaStrategy).Dema2.IdlePeriod() },
			Doc:  "A bullish cross occurs when the fast DEMA moves above the slow DEMA, a bearish cross when the slow moves above the fast",
			Rule: func(s strategy.Strategy, f Fields) []Expect {
				d := s.(*strend.DemaStrategy)
				a := ind1(d.Dema1.IdlePeriod(), [][]float64{f.C}, func(c cs) <-chan float64 { return d.Dema1.Compute(c[0]) })
				b := ind1(d.Dema2.IdlePeriod(), [][]float64{f.C}, func(c cs) <-chan float64 { return d.Dema2.Compute(c[0]) })
				return rule(len(f.C), func(e *ev, x []float64) strategy.Action { return sign3(e.gt(x[0], x[1]), e.gt(x[1], x[0])) }, a, b)
			},
		},
		{
			Name: "Envelope", Params: []reg.Param{per("period", 20)}, FParams: []float64{20},
			Build: func(c reg.Config) strategy.Strategy {
				return strend.NewEnvelopeStrategyWith(trend.NewEnvelope[float64](trend.NewSmaWithPeriod[float64](c.P[0]), c.F[0]/8))
			},
			Warm: func(s strategy.Strategy) int { return s.(*strend.EnvelopeStrategy).Envelope.IdlePeriod() },
			Doc:  "closing above the upper band suggests Sell, closing below the lower band suggests Buy",
			Rule: func(s strategy.Strategy, f Fields) []Expect {
				en := s.(*strend.EnvelopeStrategy).Envelope
				g := ind(en.IdlePeriod(), [][]float64{f.C}, func(c cs) cs { u, m, l := en.Compute(c[0]); return cs{u, m, l} })
				return rule(len(f.C), func(e *ev, x []float64) strategy.Action { return sign3(e.lt(x[2], x[1]), e.gt(x[2], x[0])) }, g[0], g[2], col(f.C))
			},
		},
		{
			// FParams: the smoothing constants of the two EMAs (exported fields); with equal periods
			// and different constants the two lines still differ
			Name: "GoldenCross", InRegistry: true, Params: []reg.Param{per("fast", 50), per("slow", 200)}, FParams: []float64{2, 2},
			Fix: func(c *reg.Config) { sort2(&c.P[0], &c.P[1]) },
			Build: func(c reg.Config) strategy.Strategy {
				s := strend.NewGoldenCrossStrategyWith(c.P[0], c.P[1])
				if len(c.F) >= 2 && (c.F[0] != 2 || c.F[1] != 2) {
					s.FastEma.Smoothing, s.SlowEma.Smoothing = c.F[0], c.F[1]
				}
				return s
			},
			Warm:  func(s strategy.Strategy) int { return s.(*strend.GoldenCrossStrategy).SlowEma.IdlePeriod() },
			Doc:   "buy when the fastest EMA is above the slowest EMA, sell when below, hold otherwise",
			Rule: func(s strategy.Strategy, f Fields) []Expect {
				g := s.(*strend.GoldenCrossStrategy)
				a := ind1(g.FastEma.IdlePeriod(), [][]float64{f.C}, func(c cs) <-chan float64 { return g.FastEma.Compute(c[0]) })
				b := ind1(g.SlowEma.IdlePeriod(), [][]float64{f.C}, func(c cs) <-chan float64 { return g.SlowEma.Compute(c[0]) })
				return rule(len(f.C), func(e *ev, x []float64) strategy.Action { return sign3(e.gt(x[0], x[1]), e.lt(x[0], x[1])) }, a, b)
			},
		},
		{
			Name: "Kama", InRegistry: true, Params: []reg.Param{per("er", 10), per("fast", 2), per("slow", 30)},
			Fix:   func(c *reg.Config) { sort2(&c.P[1], &c.P[2]) },
			Build: func(c reg.Config) strategy.Strategy { return strend.NewKamaStrategyWith(c.P[0], c.P[1], c.P[2]) },
			Warm:  func(s strategy.Strategy) int { return s.(*strend.KamaStrategy).Kama.IdlePeriod() },
			Doc:   "A closing price above the KAMA suggests a bullish trend, below the KAMA a bearish trend",
			Rule: func(s strategy.Strategy, f Fields) []Expect {
				k := s.(*strend.KamaStrategy).Kama
				v := ind1(k.IdlePeriod(), [][]float64{f.C}, func(c cs) <-chan float64 { return k.Compute(c[0]) })
				return rule(len(f.C), func(e *ev, x []float64) strategy.Action { return sign3(e.gt(x[1], x[0]), e.lt(x[1], x[0])) }, v, col(f.C))
			},
		},
		{
			Name: "Kdj", InRegistry: true, Params: []reg.Param{per("minmax", 9), per("sma1", 3), per("sma2", 3)},
			Build: func(c reg.Config) strategy.Strategy {
				s := strend.NewKdjStrategy()
				s.Kdj.MovingMax.Period, s.Kdj.MovingMin.Period, s.Kdj.Sma1.Period, s.Kdj.Sma2.Period = c.P[0], c.P[0], c.P[1], c.P[2]
				return s
			},
			Warm: func(s strategy.Strategy) int { return s.(*strend.KdjStrategy).Kdj.IdlePeriod() },
			Doc:  "BUY when the j value is above both k and d values, SELL when below both (KDJ of highs, lows, closings)",
			Rule: func(s strategy.Strategy, f Fields) []Expect {
				k := s.(*strend.KdjStrategy).Kdj
				g := ind(k.IdlePeriod(), [][]float64{f.H, f.L, f.C}, func(c cs) cs { a, b, j := k.Compute(c[0], c[1], c[2]); return cs{a, b, j} })
				return rule(len(f.C), func(e *ev, x []float64) strategy.Action {
					return sign3(e.gt(x[2]-x[0], 0) && e.gt(x[2]-x[1], 0), e.lt(x[2]-x[0], 0) && e.lt(x[2]-x[1], 0))
				}, g...)
			},
		},
		{
			Name: "Macd", InRegistry: true, Params: []reg.Param{per("p1", 12), per("p2", 26), per("p3", 9)},
			Fix:   func(c *reg.Config) { sort2(&c.P[0], &c.P[1]) },
			Build: func(c reg.Config) strategy.Strategy { return strend.NewMacdStrategyWith(c.P[0], c.P[1], c.P[2]) },
			Warm:  func(s strategy.Strategy) int { return s.(*strend.MacdStrategy).Macd.IdlePeriod() },
			Doc:   "MACD above the signal line suggests a bullish trend, below a bearish trend; the code additionally requires macd < 0 for Buy and macd > 0 for Sell (stricter refinement, taken as the rule, not claimed)",
			Rule: func(s strategy.Strategy, f Fields) []Expect {
				m := s.(*strend.MacdStrategy).Macd
				g := ind(m.IdlePeriod(), [][]float64{f.C}, func(c cs) cs { a, b := m.Compute(c[0]); return cs{a, b} })
				return rule(len(f.C), func(e *ev, x []float64) strategy.Action {
					return sign3(e.gt(x[0], x[1]) && e.lt(x[0], 0), e.gt(x[1], x[0]) && e.gt(x[0], 0))
				}, g...)
			},
		},
		{
			Name: "Qstick", InRegistry: true, Params: []reg.Param{per("period", 5)},
			Build: func(c reg.Config) strategy.Strategy {
				s := strend.NewQstickStrategy()
				s.Qstick.Sma.Period = c.P[0]
				return s
			},
			Warm: func(s strategy.Strategy) int { return s.(*strend.QstickStrategy).Qstick.Sma.Period },
			Doc:  "Qstick (SMA of closing - opening) crossing above zero: Buy; crossing below zero: Sell",
			Rule: func(s strategy.Strategy, f Fields) []Expect {
				q := s.(*strend.QstickStrategy).Qstick
				v := ind1(q.IdlePeriod(), [][]float64{f.O, f.C}, func(c cs) <-chan float64 { return q.Compute(c[0], c[1]) })
				return rule(len(f.C), func(e *ev, x []float64) strategy.Action {
					return sign3(e.cmp(x[0], 0) >= 0 && e.lt(x[1], 0), e.cmp(x[0], 0) <= 0 && e.gt(x[1], 0))
				}, v, prevOf(v))
			},
		},
		{
			Name: "Smma", InRegistry: true, Params: []reg.Param{per("short", 7), per("long", 20)},
			Fix:     func(c *reg.Config) { sort2(&c.P[0], &c.P[1]) },
			Build:   func(c reg.Config) strategy.Strategy { return strend.NewSmmaStrategyWith(c.P[0], c.P[1]) },
			Warm:    func(s strategy.Strategy) int { return s.(*strend.SmmaStrategy).LongSmma.IdlePeriod() },
			LateKey: "SmmaStrategy/one-extra-action-every-recommendation-a-day-late",
			Doc:     "short-term SMMA above the long-term SMMA: bullish; below: bearish",
			Rule: func(s strategy.Strategy, f Fields) []Expect {
				m := s.(*strend.SmmaStrategy)
				a := ind1(m.ShortSmma.IdlePeriod(), [][]float64{f.C}, func(c cs) <-chan float64 { return m.ShortSmma.Compute(c[0]) })
				b := ind1(m.LongSmma.IdlePeriod(), [][]float64{f.C}, func(c cs) <-chan float64 { return m.LongSmma.Compute(c[0]) })
				return rule(len(f.C), func(e *ev, x []float64) strategy.Action { return sign3(e.gt(x[0], x[1]), e.gt(x[1], x[0])) }, a, b)
			},
		},
		{
			Name: "Alligator", InRegistry: true, Params: []reg.Param{per("jaw", 13), per("teeth", 8), per("lip", 5)},
			Build:   func(c reg.Config) strategy.Strategy { return strend.NewAlligatorStrategyWith(c.P[0], c.P[1], c.P[2]) },
			LateKey: "AlligatorStrategy/one-extra-action-every-recommendation-a-day-late",
			Warm: func(s strategy.Strategy) int {
				a := s.(*strend.AlligatorStrategy)
				return maxInt(a.Jaw.Period, a.Teeth.Period, a.Lip.Period) - 1
			},
			Doc: "rule taken from the code (the type comment gives none): Buy when the lip is above teeth and jaw, Sell when below both",
			Rule: func(s strategy.Strategy, f Fields) []Expect {
				a := s.(*strend.AlligatorStrategy)
				j := ind1(a.Jaw.IdlePeriod(), [][]float64{f.C}, func(c cs) <-chan float64 { return a.Jaw.Compute(c[0]) })
				t := ind1(a.Teeth.IdlePeriod(), [][]float64{f.C}, func(c cs) <-chan float64 { return a.Teeth.Compute(c[0]) })
				l := ind1(a.Lip.IdlePeriod(), [][]float64{f.C}, func(c cs) <-chan float64 { return a.Lip.Compute(c[0]) })
				return rule(len(f.C), func(e *ev, x []float64) strategy.Action {
					return sign3(e.gt(x[2], x[1]) && e.gt(x[2], x[0]), e.lt(x[2], x[1]) && e.lt(x[2], x[0]))
				}, j, t, l)
			},
		},
		{
			Name: "Trima", InRegistry: true, Params: []reg.Param{per("short", 20), per("long", 50)},
			Fix: func(c *reg.Config) { sort2(&c.P[0], &c.P[1]) },
			Build: func(c reg.Config) strategy.Strategy {
				s := strend.NewTrimaStrategy()
				s.Short.Period, s.Long.Period = c.P[0], c.P[1]
				return s
			},
			Warm: func(s strategy.Strategy) int { return s.(*strend.TrimaStrategy).Long.IdlePeriod() },
			Doc:  "bullish cross when the short TRIMA moves above the long TRIMA, bearish when below",
			Rule: func(s strategy.Strategy, f Fields) []Expect {
				t := s.(*strend.TrimaStrategy)
				a := ind1(t.Short.IdlePeriod(), [][]float64{f.C}, func(c cs) <-chan float64 { return t.Short.Compute(c[0]) })
				b := ind1(t.Long.IdlePeriod(), [][]float64{f.C}, func(c cs) <-chan float64 { return t.Long.Compute(c[0]) })
				return rule(len(f.C), func(e *ev, x []float64) strategy.Action { return sign3(e.gt(x[0], x[1]), e.gt(x[1], x[0])) }, a, b)
			},
		},
		{
			// only the slow period has to be the largest (the code aligns fast and medium with the
			// slow line independently; the medium line may be quicker than the fast one)
			Name: "TripleMovingAverageCrossover", InRegistry: true, Params: []reg.Param{per("fast", 21), per("medium", 50), per("slow", 200)},
			Fix: func(c *reg.Config) { sort2(&c.P[0], &c.P[2]); sort2(&c.P[1], &c.P[2]) },
			Build: func(c reg.Config) strategy.Strategy {
				return strend.NewTripleMovingAverageCrossoverStrategyWith(c.P[0], c.P[1], c.P[2])
			},
			Warm: func(s strategy.Strategy) int {
				return s.(*strend.TripleMovingAverageCrossoverStrategy).SlowEma.IdlePeriod()
			},
			Doc: "buy when the fastest EMA is above both the medium and slowest EMAs, sell when below both",
			Rule: func(s strategy.Strategy, f Fields) []Expect {
				t := s.(*strend.TripleMovingAverageCrossoverStrategy)
				a := ind1(t.FastEma.IdlePeriod(), [][]float64{f.C}, func(c cs) <-chan float64 { return t.FastEma.Compute(c[0]) })
				b := ind1(t.MediumEma.IdlePeriod(), [][]float64{f.C}, func(c cs) <-chan float64 { return t.MediumEma.Compute(c[0]) })
				d := ind1(t.SlowEma.IdlePeriod(), [][]float64{f.C}, func(c cs) <-chan float64 { return t.SlowEma.Compute(c[0]) })
				return rule(len(f.C), func(e *ev, x []float64) strategy.Action {
					return sign3(e.gt(x[0], x[1]) && e.gt(x[0], x[2]), e.lt(x[0], x[1]) && e.lt(x[0], x[2]))
				}, a, b, d)
			},
		},
		{
			Name: "Trix", Params: []reg.Param{per("period", 15)},
			Build: func(c reg.Config) strategy.Strategy {
				s := strend.NewTrixStrategy()
				s.Trix.Period = c.P[0]
				return s
			},
			Warm: func(s strategy.Strategy) int { return s.(*strend.TrixStrategy).Trix.IdlePeriod() },
			Doc:  "TRIX above the zero line suggests a bullish trend, below a bearish trend",
			Rule: func(s strategy.Strategy, f Fields) []Expect {
				t := s.(*strend.TrixStrategy).Trix
				v := ind1(t.IdlePeriod(), [][]float64{f.C}, func(c cs) <-chan float64 { return t.Compute(c[0]) })
				return rule(len(f.C), func(e *ev, x []float64) strategy.Action { return sign3(e.gt(x[0], 0), e.lt(x[0], 0)) }, v)
			},
		},
		{
			Name: "Tsi", InRegistry: true, Params: []reg.Param{per("first", 25), per("second", 13), per("signal", 12), per("signal_kind", 0)},
			Fix: func(c *reg.Config) { c.P[3] %= 7 },
			Build: func(c reg.Config) strategy.Strategy {
				s := strend.NewTsiStrategyWith(c.P[0], c.P[1], c.P[2])
				if len(c.P) > 3 && c.P[3] != 0 { // (cases saved before the kind existed have three parameters)
					s.Signal = maOf(c.P[3], c.P[2]) // the exported field takes any trend.Ma
				}
				return s
			},
			Warm: func(s strategy.Strategy) int { return s.(*strend.TsiStrategy).IdlePeriod() },
			Doc:  "Signal Line = Ema(12, TSI); when TSI > 0 and TSI > Signal Line, Buy; when TSI < 0 and TSI < Signal Line, Sell",
			Rule: func(s strategy.Strategy, f Fields) []Expect {
				t := s.(*strend.TsiStrategy)
				tsi := ind1(t.Tsi.IdlePeriod(), [][]float64{f.C}, func(c cs) <-chan float64 { return t.Tsi.Compute(c[0]) })
				sig := ind1(t.Tsi.IdlePeriod()+t.Signal.IdlePeriod(), [][]float64{tsi.v}, func(c cs) <-chan float64 { return t.Signal.Compute(c[0]) })
				return rule(len(f.C), func(e *ev, x []float64) strategy.Action {
					return sign3(e.gt(x[0], 0) && e.gt(x[0], x[1]), e.lt(x[0], 0) && e.lt(x[0], x[1]))
				}, tsi, sig)
			},
		},
		{
			Name: "Vwma", InRegistry: true, Params: []reg.Param{per("period", 20)},
			Build: func(c reg.Config) strategy.Strategy {
				s := strend.NewVwmaStrategy()
				s.Vwma.Period, s.Sma.Period = c.P[0], c.P[0]
				return s
			},
			Warm: func(s strategy.Strategy) int { return s.(*strend.VwmaStrategy).Vwma.Period - 1 },
			Doc:  "BUY when VWMA is above SMA, SELL when VWMA is below SMA, HOLD otherwise (same period for both)",
			Rule: func(s strategy.Strategy, f Fields) []Expect {
				v := s.(*strend.VwmaStrategy)
				a := ind1(v.Sma.IdlePeriod(), [][]float64{f.C}, func(c cs) <-chan float64 { return v.Sma.Compute(c[0]) })
				b := ind1(v.Vwma.IdlePeriod(), [][]float64{f.C, f.V}, func(c cs) <-chan float64 { return v.Vwma.Compute(c[0], c[1]) })
				return rule(len(f.C), func(e *ev, x []float64) strategy.Action { return sign3(e.gt(x[1], x[0]), e.gt(x[0], x[1])) }, a, b)
			},
		},
		{
			Name: "WeightedClose", InRegistry: true, Params: []reg.Param{per("ma", 20), per("ma_kind", 0)},
			Fix: func(c *reg.Config) { c.P[1] %= 7 },
			Build: func(c reg.Config) strategy.Strategy {
				s := strend.NewWeightedCloseStrategyWith(c.P[0])
				if c.P[1] != 0 {
					s.Ma = maOf(c.P[1], c.P[0]) // the exported field takes any trend.Ma
				}
				return s
			},
			Warm: func(s strategy.Strategy) int { return s.(*strend.WeightedCloseStrategy).Ma.IdlePeriod() },
			Doc:  "weighted close above its moving average: bullish; below: bearish",
			Rule: func(s strategy.Strategy, f Fields) []Expect {
				w := s.(*strend.WeightedCloseStrategy)
				wc := ind1(0, [][]float64{f.H, f.L, f.C}, func(c cs) <-chan float64 { return w.WeightedClose.Compute(c[0], c[1], c[2]) })
				ma := ind1(w.Ma.IdlePeriod(), [][]float64{wc.v}, func(c cs) <-chan float64 { return w.Ma.Compute(c[0]) })
				return rule(len(f.C), func(e *ev, x []float64) strategy.Action { return sign3(e.gt(x[0], x[1]), e.lt(x[0], x[1])) }, wc, ma)
			},
		},
		{
			Name: "AwesomeOscillator", InRegistry: true, Params: []reg.Param{per("short", 5), per("long", 34)},
			Fix: func(c *reg.Config) { sort2(&c.P[0], &c.P[1]) },
			Build: func(c reg.Config) strategy.Strategy {
				s := smom.NewAwesomeOscillatorStrategy()
				s.AwesomeOscillator.ShortSma.Period, s.AwesomeOscillator.LongSma.Period = c.P[0], c.P[1]
				return s
			},
			Warm: func(s strategy.Strategy) int {
				return s.(*smom.AwesomeOscillatorStrategy).AwesomeOscillator.IdlePeriod()
			},
			Doc: "rule taken from the code and the indicator's comment: AO above the zero line bullish (Buy), below bearish (Sell)",
			Rule: func(s strategy.Strategy, f Fields) []Expect {
				a := s.(*smom.AwesomeOscillatorStrategy).AwesomeOscillator
				v := ind1(a.IdlePeriod(), [][]float64{f.H, f.L}, func(c cs) <-chan float64 { return a.Compute(c[0], c[1]) })
				return rule(len(f.C), func(e *ev, x []float64) strategy.Action { return sign3(e.gt(x[0], 0), e.lt(x[0], 0)) }, v)
			},
		},
		{
			Name: "Rsi", InRegistry: true, ThresholdPair: true, Params: []reg.Param{per("period", 14)}, FParams: []float64{30, 70},
			Fix: func(c *reg.Config) {
				if c.F[0] > c.F[1] {
					c.F[0], c.F[1] = c.F[1], c.F[0]
				}
			},
			Build: func(c reg.Config) strategy.Strategy {
				s := smom.NewRsiStrategyWith(c.F[0], c.F[1])
				s.Rsi = momentum.NewRsiWithPeriod[float64](c.P[0])
				return s
			},
			Warm: func(s strategy.Strategy) int { return s.(*smom.RsiStrategy).Rsi.IdlePeriod() },
			Doc:  "BuyAt: the RSI level at which a Buy action is generated (at or below); SellAt: at or above",
			Rule: func(s strategy.Strategy, f Fields) []Expect {
				r := s.(*smom.RsiStrategy)
				v := ind1(r.Rsi.IdlePeriod(), [][]float64{f.C}, func(c cs) <-chan float64 { return r.Rsi.Compute(c[0]) })
				return rule(len(f.C), func(e *ev, x []float64) strategy.Action {
					return sign3(e.cmp(x[0], r.BuyAt) <= 0, e.cmp(x[0], r.SellAt) >= 0)
				}, v)
			},
		},
		{
			Name: "StochasticRsi", InRegistry: true, ThresholdPair: true, Params: []reg.Param{per("period", 14)}, FParams: []float64{0.2, 0.8},
			Fix: func(c *reg.Config) {
				if c.F[0] > c.F[1] {
					c.F[0], c.F[1] = c.F[1], c.F[0]
				}
			},
			Build: func(c reg.Config) strategy.Strategy {
				s := smom.NewStochasticRsiStrategyWith(c.F[0], c.F[1])
				s.StochasticRsi = momentum.NewStochasticRsiWithPeriod[float64](c.P[0])
				return s
			},
			Warm: func(s strategy.Strategy) int { return s.(*smom.StochasticRsiStrategy).StochasticRsi.IdlePeriod() },
			Doc:  "BuyAt: the level at which a Buy action is generated (at or below); SellAt: at or above",
			Rule: func(s strategy.Strategy, f Fields) []Expect {
				r := s.(*smom.StochasticRsiStrategy)
				v := ind1(r.StochasticRsi.IdlePeriod(), [][]float64{f.C}, func(c cs) <-chan float64 { return r.StochasticRsi.Compute(c[0]) })
				return rule(len(f.C), func(e *ev, x []float64) strategy.Action {
					return sign3(e.cmp(x[0], r.BuyAt) <= 0, e.cmp(x[0], r.SellAt) >= 0)
				}, v)
			},
		},
		{
			// the three RSI levels are drawn independently of each other (tenths of the scale, from
			// the integer parameters), so that every order of BuySignalAt, BuyAt and SellAt occurs
			Name: "TripleRsi", InRegistry: true, Params: []reg.Param{per("rsi", 5), per("sma", 200), per("down", 3), per("buy_signal_tenths", 6), per("buy_tenths", 3), per("sell_tenths", 5)},
			Fix: func(c *reg.Config) {
				// "It assumes that the moving average period is longer than the RSI period."
				if c.P[1] <= c.P[0] {
					c.P[1] = c.P[0] + 1
				}
			},
			Build: func(c reg.Config) strategy.Strategy {
				if len(c.P) < 6 && len(c.F) >= 3 {
					// a case saved before the levels became integer parameters
					return smom.NewTripleRsiStrategyWith(c.P[0], c.P[1], c.P[2], c.F[0], c.F[1], c.F[2])
				}
				return smom.NewTripleRsiStrategyWith(c.P[0], c.P[1], c.P[2], float64(10*c.P[3]), float64(10*c.P[4]), float64(10*c.P[5]))
			},
			Warm: func(s strategy.Strategy) int {
				t := s.(*smom.TripleRsiStrategy)
				return t.Sma.IdlePeriod() + t.DownDays - 1
			},
			Doc:        "Buy: RSI below BuyAt, RSI down for the DownDays-th period in a row, RSI below BuySignalAt DownDays periods ago, close above the moving average. Sell: RSI above SellAt.",
			Rule:       func(s strategy.Strategy, f Fields) []Expect { return tripleRsi(s, f, true) },
			DefectKey:  "TripleRsiStrategy/down-days-comparison-inverted",
			DefectRule: func(s strategy.Strategy, f Fields) []Expect { return tripleRsi(s, f, false) },
		},
		{
			Name: "BollingerBands", InRegistry: true, Params: []reg.Param{per("period", 20)},
			Build: func(c reg.Config) strategy.Strategy {
				s := svola.NewBollingerBandsStrategy()
				s.BollingerBands.Period = c.P[0]
				return s
			},
			Warm: func(s strategy.Strategy) int { return s.(*svola.BollingerBandsStrategy).BollingerBands.IdlePeriod() },
			Doc:  "closing above the upper band suggests Buy, below the lower band Sell",
			Rule: func(s strategy.Strategy, f Fields) []Expect {
				b := s.(*svola.BollingerBandsStrategy).BollingerBands
				g := ind(b.IdlePeriod(), [][]float64{f.C}, func(c cs) cs { u, m, l := b.Compute(c[0]); return cs{u, m, l} })
				return rule(len(f.C), func(e *ev, x []float64) strategy.Action { return sign3(e.gt(x[2], x[0]), e.gt(x[1], x[2])) }, g[0], g[2], col(f.C))
			},
		},
		{
			Name: "SuperTrendSma", InRegistry: true, Params: []reg.Param{per("period", 14)}, FParams: []float64{2.5},
			Build: func(c reg.Config) strategy.Strategy {
				return svola.NewSuperTrendStrategyWith(volatility.NewSuperTrendWithMa[float64](trend.NewSmaWithPeriod[float64](c.P[0]), c.F[0]))
			},
			Warm: func(s strategy.Strategy) int { return s.(*svola.SuperTrendStrategy).SuperTrend.IdlePeriod() },
			Doc:  "closing above the Super Trend suggests Buy, below Sell",
			Rule: superTrendRule,
		},
		{
			Name: "SuperTrendHma", InRegistry: true, Params: []reg.Param{per("period", 14)}, FParams: []float64{2.5},
			Build: func(c reg.Config) strategy.Strategy {
				return svola.NewSuperTrendStrategyWith(volatility.NewSuperTrendWithPeriod[float64](c.P[0], c.F[0]))
			},
			Warm: func(s strategy.Strategy) int { return s.(*svola.SuperTrendStrategy).SuperTrend.IdlePeriod() },
			Doc:  "closing above the Super Trend suggests Buy, below Sell (HMA-based ATR)",
			Rule: superTrendRule,
		},
		{
			Name: "ChaikinMoneyFlow", InRegistry: true, Params: []reg.Param{per("period", 20)},
			Build: func(c reg.Config) strategy.Strategy { return svolu.NewChaikinMoneyFlowStrategyWith(c.P[0]) },
			Warm: func(s strategy.Strategy) int {
				return s.(*svolu.ChaikinMoneyFlowStrategy).ChaikinMoneyFlow.IdlePeriod()
			},
			Doc: "Buy when CMF is above 0, Sell when below 0",
			Rule: func(s strategy.Strategy, f Fields) []Expect {
				c := s.(*svolu.ChaikinMoneyFlowStrategy).ChaikinMoneyFlow
				v := ind1(c.IdlePeriod(), [][]float64{f.H, f.L, f.C, f.V}, func(x cs) <-chan float64 { return c.Compute(x[0], x[1], x[2], x[3]) })
				return rule(len(f.C), func(e *ev, x []float64) strategy.Action { return sign3(e.gt(x[0], 0), e.lt(x[0], 0)) }, v)
			},
		},
		{
			Name: "EaseOfMovement", InRegistry: true, Params: []reg.Param{per("period", 14)},
			Build: func(c reg.Config) strategy.Strategy { return svolu.NewEaseOfMovementStrategyWith(c.P[0]) },
			Warm:  func(s strategy.Strategy) int { return s.(*svolu.EaseOfMovementStrategy).EaseOfMovement.IdlePeriod() },
			Doc:   "Buy when EMV is above 0, Sell when below 0",
			Rule: func(s strategy.Strategy, f Fields) []Expect {
				m := s.(*svolu.EaseOfMovementStrategy).EaseOfMovement
				v := ind1(m.IdlePeriod(), [][]float64{f.H, f.L, f.V}, func(x cs) <-chan float64 { return m.Compute(x[0], x[1], x[2]) })
				return rule(len(f.C), func(e *ev, x []float64) strategy.Action { return sign3(e.gt(x[0], 0), e.lt(x[0], 0)) }, v)
			},
		},
		{
			Name: "ForceIndex", InRegistry: true, Params: []reg.Param{per("period", 13)},
			Build: func(c reg.Config) strategy.Strategy { return svolu.NewForceIndexStrategyWith(c.P[0]) },
			Warm:  func(s strategy.Strategy) int { return s.(*svolu.ForceIndexStrategy).ForceIndex.IdlePeriod() },
			Doc:   "Buy when the Force Index is above zero, Sell when below zero",
			Rule: func(s strategy.Strategy, f Fields) []Expect {
				m := s.(*svolu.ForceIndexStrategy).ForceIndex
				v := ind1(m.IdlePeriod(), [][]float64{f.C, f.V}, func(x cs) <-chan float64 { return m.Compute(x[0], x[1]) })
				return rule(len(f.C), func(e *ev, x []float64) strategy.Action { return sign3(e.gt(x[0], 0), e.lt(x[0], 0)) }, v)
			},
		},
		{
			Name: "MoneyFlowIndex", InRegistry: true, ThresholdPair: true, Params: []reg.Param{per("period", 14)}, FParams: []float64{80, 20},
			Fix: func(c *reg.Config) {
				if c.F[0] < c.F[1] {
					c.F[0], c.F[1] = c.F[1], c.F[0]
				}
			},
			Build: func(c reg.Config) strategy.Strategy {
				s := svolu.NewMoneyFlowIndexStrategyWith(c.F[0], c.F[1])
				s.MoneyFlowIndex.Sum.Period = c.P[0]
				return s
			},
			Warm: func(s strategy.Strategy) int { return s.(*svolu.MoneyFlowIndexStrategy).MoneyFlowIndex.IdlePeriod() },
			Doc:  "Sell when MFI is at or over SellAt (80), Buy when at or below BuyAt (20)",
			Rule: func(s strategy.Strategy, f Fields) []Expect {
				m := s.(*svolu.MoneyFlowIndexStrategy)
				v := ind1(m.MoneyFlowIndex.IdlePeriod(), [][]float64{f.H, f.L, f.C, f.V}, func(x cs) <-chan float64 {
					return m.MoneyFlowIndex.Compute(x[0], x[1], x[2], x[3])
				})
				return rule(len(f.C), func(e *ev, x []float64) strategy.Action {
					sell := e.cmp(x[0], m.SellAt) >= 0
					return sign3(!sell && e.cmp(x[0], m.BuyAt) <= 0, sell)
				}, v)
			},
		},
		{
			Name: "NegativeVolumeIndex", InRegistry: true, Params: []reg.Param{per("ema", 255)},
			Build: func(c reg.Config) strategy.Strategy { return svolu.NewNegativeVolumeIndexStrategyWith(c.P[0]) },
			Warm: func(s strategy.Strategy) int {
				n := s.(*svolu.NegativeVolumeIndexStrategy)
				return n.NegativeVolumeIndex.IdlePeriod() + n.NegativeVolumeIndexEma.IdlePeriod()
			},
			Doc: "Buy when NVI is below its EMA, Sell when above its EMA, Hold otherwise",
			Rule: func(s strategy.Strategy, f Fields) []Expect {
				n := s.(*svolu.NegativeVolumeIndexStrategy)
				nvi := ind1(1, [][]float64{f.C, f.V}, func(x cs) <-chan float64 { return volume.NewNvi[float64]().Compute(x[0], x[1]) })
				em := ind1(1+n.NegativeVolumeIndexEma.IdlePeriod(), [][]float64{nvi.v}, func(x cs) <-chan float64 { return n.NegativeVolumeIndexEma.Compute(x[0]) })
				return rule(len(f.C), func(e *ev, x []float64) strategy.Action { return sign3(e.lt(x[0], x[1]), e.gt(x[0], x[1])) }, nvi, em)
			},
		},
		{
			Name: "WeightedAveragePrice", InRegistry: true, Params: []reg.Param{per("period", 14)},
			Build: func(c reg.Config) strategy.Strategy { return svolu.NewWeightedAveragePriceStrategyWith(c.P[0]) },
			Warm: func(s strategy.Strategy) int {
				return s.(*svolu.WeightedAveragePriceStrategy).WeightedAveragePrice.IdlePeriod()
			},
			Doc: "Buy when the closing is below the VWAP, Sell when above, Hold otherwise",
			Rule: func(s strategy.Strategy, f Fields) []Expect {
				w := s.(*svolu.WeightedAveragePriceStrategy).WeightedAveragePrice
				v := ind1(w.IdlePeriod(), [][]float64{f.C, f.V}, func(x cs) <-chan float64 { return w.Compute(x[0], x[1]) })
				return rule(len(f.C), func(e *ev, x []float64) strategy.Action { return sign3(e.gt(x[0], x[1]), e.lt(x[0], x[1])) }, v, col(f.C))
			},
		},
	}
}

func superTrendRule(s strategy.Strategy, f Fields) []Expect {
	st := s.(*svola.SuperTrendStrategy).SuperTrend
	v := ind1(st.IdlePeriod(), [][]float64{f.H, f.L, f.C}, func(x cs) <-chan float64 { return st.Compute(x[0], x[1], x[2]) })
	return rule(len(f.C), func(e *ev, x []float64) strategy.Action { return sign3(e.lt(x[0], x[1]), e.gt(x[0], x[1])) }, v, col(f.C))
}

// tripleRsi evaluates the Triple RSI rule; down selects the documented reading ("down for the
// DownDays-th period in a row") or its inversion (the recorded defect).
func tripleRsi(s strategy.Strategy, f Fields, down bool) []Expect {
	t := s.(*smom.TripleRsiStrategy)
	n := len(f.C)
	rsi := ind1(t.Rsi.IdlePeriod(), [][]float64{f.C}, func(c cs) <-chan float64 { return t.Rsi.Compute(c[0]) })
	sma := ind1(t.Sma.IdlePeriod(), [][]float64{f.C}, func(c cs) <-chan float64 { return t.Sma.Compute(c[0]) })
	out := make([]Expect, n)
	for i := t.Sma.IdlePeriod() + t.DownDays - 1; i < n; i++ {
		e := &ev{}
		r0, ok := rsi.get(i)
		m, ok2 := sma.get(i)
		if !ok || !ok2 {
			continue
		}
		a := strategy.Hold
		switch {
		case e.gt(r0, t.SellAt):
			a = strategy.Sell
		case e.cmp(r0, t.BuyAt) >= 0:
		default:
			fits := true
			for k := 1; k < t.DownDays; k++ {
				p, _ := rsi.get(i - t.DownDays + k)
				q, _ := rsi.get(i - t.DownDays + k + 1)
				falling := e.gt(p, q)
				if down && !falling {
					fits = false
				}
				if !down && falling {
					fits = false
				}
			}
			old, _ := rsi.get(i - t.DownDays + 1)
			if fits && e.lt(old, t.BuySignalAt) && e.gt(f.C[i], m) {
				a = strategy.Buy
			}
		}
		out[i] = Expect{A: a, Exempt: e.tie}
	}
	return out
}
