package sreg

import (
	"fmt"

	"github.com/cinar/indicator/v2/asset"
	"github.com/cinar/indicator/v2/strategy"
	"github.com/cinar/indicator/v2/strategy/compound"
	"github.com/cinar/indicator/v2/strategy/decorator"
	"pgregory.net/rapid"
	"verif/harness/pipe"
	"verif/harness/reg"
)

// Tree is a generated strategy expression: a base strategy leaf, a decorator or a combinator.
type Tree struct {
	Op    string     `json:"op"` // leaf, macdrsi, inverse, noloss, stoploss, and, or, majority, split
	Leaf  string     `json:"leaf,omitempty"`
	Plain bool       `json:"plain,omitempty"`
	Cfg   reg.Config `json:"cfg,omitempty"`
	Pct   float64    `json:"pct,omitempty"`
	Kids  []Tree     `json:"kids,omitempty"`
	// Share (root only): identical sub-expressions are built once and the ONE instance is used
	// at every place it occurs (the same strategy value listed twice in a group, a decorator
	// applied once and used under two combinators)
	Share bool `json:"share,omitempty"`
}

func (t Tree) String() string {
	switch t.Op {
	case "leaf":
		if t.Plain {
			return t.Leaf + "(default)"
		}
		return fmt.Sprintf("%s%v", t.Leaf, t.Cfg.P)
	case "macdrsi":
		return "MacdRsi"
	}
	s := t.Op + "("
	for i, k := range t.Kids {
		if i > 0 {
			s += ","
		}
		s += k.String()
	}
	return s + ")"
}

var byName map[string]Strat

// ByName finds a base strategy entry.
func ByName(name string) (Strat, bool) {
	if byName == nil {
		byName = map[string]Strat{}
		for _, s := range Base() {
			byName[s.Name] = s
		}
		for _, s := range Extra() {
			byName[s.Name] = s
		}
	}
	s, ok := byName[name]
	return s, ok
}

// BuildLeaf builds a base strategy from a plain flag or a configuration.
func (st Strat) BuildLeaf(plain bool, c reg.Config) strategy.Strategy {
	if plain && st.Plain != nil {
		return st.Plain()
	}
	return st.Build(c)
}

// Build constructs the strategy of the expression.
func (t Tree) Build() strategy.Strategy {
	if t.Share {
		return t.build(map[string]strategy.Strategy{})
	}
	return t.build(nil)
}

func (t Tree) build(shared map[string]strategy.Strategy) (out strategy.Strategy) {
	if shared != nil {
		key := t.String() + fmt.Sprint(t.Cfg, t.Pct)
		if s, ok := shared[key]; ok {
			return s
		}
		defer func() { shared[key] = out }()
	}
	switch t.Op {
	case "leaf":
		st, _ := ByName(t.Leaf)
		return st.BuildLeaf(t.Plain, t.Cfg)
	case "macdrsi":
		return compound.NewMacdRsiStrategy()
	case "inverse":
		return decorator.NewInverseStrategy(t.Kids[0].build(shared))
	case "noloss":
		return decorator.NewNoLossStrategy(t.Kids[0].build(shared))
	case "stoploss":
		return decorator.NewStopLossStrategy(t.Kids[0].build(shared), t.Pct)
	}
	kids := make([]strategy.Strategy, len(t.Kids))
	for i, k := range t.Kids {
		kids[i] = k.build(shared)
	}
	switch t.Op {
	case "and":
		return strategy.NewAndStrategy("and", kids...)
	case "or":
		return strategy.NewOrStrategy("or", kids...)
	case "majority":
		return strategy.NewMajorityStrategyWith("majority", kids)
	case "split":
		return strategy.NewSplitStrategy(kids[0], kids[1])
	}
	panic("unknown op " + t.Op)
}

// Warm is the number of leading snapshots for which the expression can only recommend Hold.
func (t Tree) Warm() int {
	switch t.Op {
	case "leaf":
		st, _ := ByName(t.Leaf)
		return st.Warm(st.BuildLeaf(t.Plain, t.Cfg))
	case "macdrsi":
		m := compound.NewMacdRsiStrategy()
		a, b := m.MacdStrategy.Macd.IdlePeriod(), m.RsiStrategy.Rsi.IdlePeriod()
		if a > b {
			return a
		}
		return b
	case "inverse", "noloss", "stoploss":
		return t.Kids[0].Warm()
	}
	w := t.Kids[0].Warm()
	for _, k := range t.Kids[1:] {
		kw := k.Warm()
		if t.Op == "and" {
			if kw > w {
				w = kw
			}
		} else if kw < w {
			w = kw
		}
	}
	return w
}

// MaxWarm is the largest warm-up of any leaf (used to size inputs).
func (t Tree) MaxWarm() int {
	if len(t.Kids) == 0 {
		return t.Warm()
	}
	w := 0
	for _, k := range t.Kids {
		if kw := k.MaxWarm(); kw > w {
			w = kw
		}
	}
	return w
}

// Leaves lists the leaf names.
func (t Tree) Leaves() []string {
	if t.Op == "leaf" {
		return []string{t.Leaf}
	}
	var out []string
	for _, k := range t.Kids {
		out = append(out, k.Leaves()...)
	}
	return out
}

// GenLeaf draws a leaf over the given base strategies.
func GenLeaf(t *rapid.T, names []string) Tree {
	name := rapid.SampledFrom(names).Draw(t, "leaf")
	st, _ := ByName(name)
	c := st.GenConfigLoose(t)
	return Tree{Op: "leaf", Leaf: name, Cfg: c}
}

// GenTree draws an expression of the given maximal depth; in half of the draws identical
// sub-expressions share one instance.
func GenTree(t *rapid.T, names []string, depth int) Tree {
	tr := genTree(t, names, depth)
	tr.Share = rapid.Bool().Draw(t, "share_instances")
	return tr
}

func genTree(t *rapid.T, names []string, depth int) Tree {
	if depth <= 0 || rapid.IntRange(0, 3).Draw(t, "stop") == 0 {
		if rapid.IntRange(0, 19).Draw(t, "macdrsi") == 0 {
			return Tree{Op: "macdrsi"}
		}
		return GenLeaf(t, names)
	}
	op := rapid.SampledFrom([]string{"inverse", "noloss", "stoploss", "and", "or", "majority", "split"}).Draw(t, "op")
	tr := Tree{Op: op}
	switch op {
	case "inverse", "noloss":
		tr.Kids = []Tree{genTree(t, names, depth-1)}
	case "stoploss":
		tr.Pct = float64(rapid.IntRange(0, 31).Draw(t, "pct")) / 64
		tr.Kids = []Tree{genTree(t, names, depth-1)}
	case "split":
		tr.Kids = []Tree{genTree(t, names, depth-1), genTree(t, names, depth-1)}
	default:
		k := rapid.IntRange(1, 3).Draw(t, "k")
		for i := 0; i < k; i++ {
			if i > 0 && rapid.IntRange(0, 3).Draw(t, "same_as_previous") == 1 {
				tr.Kids = append(tr.Kids, tr.Kids[i-1]) // the same member twice in a row
				continue
			}
			tr.Kids = append(tr.Kids, genTree(t, names, depth-1))
		}
	}
	return tr
}

// RunStrategy executes Compute on the snapshots through the census-guarded runner.
func RunStrategy(s strategy.Strategy, sn []*asset.Snapshot, opt pipe.Opts) pipe.Result[strategy.Action] {
	return pipe.Run([][]*asset.Snapshot{sn}, opt, func(cs []<-chan *asset.Snapshot) []<-chan strategy.Action {
		return []<-chan strategy.Action{s.Compute(cs[0])}
	})
}

// OnTimeNames lists the base strategies that emit exactly one action per snapshot (those with a
// recorded one-day-late finding are left out of compounds by construction).
func OnTimeNames() []string {
	var out []string
	for _, s := range Base() {
		if s.LateKey == "" {
			out = append(out, s.Name)
		}
	}
	return out
}
