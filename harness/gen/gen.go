// Package gen holds the rapid generators shared by the properties: numeric series and OHLCV bars
// built by construction (never by rejection), in named classes whose distribution is reported.
package gen

import (
	"encoding/json"
	"math"
	"strings"

	"pgregory.net/rapid"
	"verif/harness/engine"
)

// Bars is a generated OHLCV series plus a free numeric series X (may hold zeros and negatives)
// and a second one Y. All slices have the same length.
type Bars struct {
	Class  string    `json:"class"`
	Open   []float64 `json:"open"`
	High   []float64 `json:"high"`
	Low    []float64 `json:"low"`
	Close  []float64 `json:"close"`
	Volume []float64 `json:"volume"`
	X      []float64 `json:"x"`
	Y      []float64 `json:"y"`
	// Exp: prices and the free series were multiplied by 2^Exp (exact), the unit of quote of a
	// penny stock, a crypto pair or an index; 0 in most draws.
	Exp int `json:"exp,omitempty"`
}

// jf is a float64 that survives JSON when it is NaN or infinite (replay files of gap series).
type jf float64

func (f jf) MarshalJSON() ([]byte, error) {
	v := float64(f)
	switch {
	case math.IsNaN(v):
		return []byte(`"NaN"`), nil
	case math.IsInf(v, 1):
		return []byte(`"+Inf"`), nil
	case math.IsInf(v, -1):
		return []byte(`"-Inf"`), nil
	}
	return json.Marshal(v)
}

func (f *jf) UnmarshalJSON(b []byte) error {
	switch string(b) {
	case `"NaN"`:
		*f = jf(math.NaN())
	case `"+Inf"`:
		*f = jf(math.Inf(1))
	case `"-Inf"`:
		*f = jf(math.Inf(-1))
	default:
		var v float64
		if err := json.Unmarshal(b, &v); err != nil {
			return err
		}
		*f = jf(v)
	}
	return nil
}

type barsJSON struct {
	Class  string `json:"class"`
	Open   []jf   `json:"open"`
	High   []jf   `json:"high"`
	Low    []jf   `json:"low"`
	Close  []jf   `json:"close"`
	Volume []jf   `json:"volume"`
	X      []jf   `json:"x"`
	Y      []jf   `json:"y"`
	Exp    int    `json:"exp,omitempty"`
}

func toJF(xs []float64) []jf {
	out := make([]jf, len(xs))
	for i, x := range xs {
		out[i] = jf(x)
	}
	return out
}

func fromJF(xs []jf) []float64 {
	out := make([]float64, len(xs))
	for i, x := range xs {
		out[i] = float64(x)
	}
	return out
}

// MarshalJSON writes non-finite values as strings.
func (b Bars) MarshalJSON() ([]byte, error) {
	return json.Marshal(barsJSON{b.Class, toJF(b.Open), toJF(b.High), toJF(b.Low), toJF(b.Close), toJF(b.Volume), toJF(b.X), toJF(b.Y), b.Exp})
}

// UnmarshalJSON reads what MarshalJSON wrote.
func (b *Bars) UnmarshalJSON(data []byte) error {
	var j barsJSON
	if err := json.Unmarshal(data, &j); err != nil {
		return err
	}
	*b = Bars{Class: j.Class, Open: fromJF(j.Open), High: fromJF(j.High), Low: fromJF(j.Low), Close: fromJF(j.Close), Volume: fromJF(j.Volume), X: fromJF(j.X), Y: fromJF(j.Y), Exp: j.Exp}
	return nil
}

// WithGaps returns a copy of the bars in which 1-3 values are missing (NaN): what a data vendor's
// gap looks like. Only for the properties that quantify over all series without reference to
// values (counts, termination, no look-ahead): the bars are no longer Valid.
func WithGaps(t *rapid.T, b Bars) Bars {
	n := b.Len()
	if n == 0 {
		return b
	}
	cp := func(xs []float64) []float64 { return append([]float64{}, xs...) }
	c := Bars{Class: b.Class + "+gaps", Exp: b.Exp, Open: cp(b.Open), High: cp(b.High), Low: cp(b.Low), Close: cp(b.Close), Volume: cp(b.Volume), X: cp(b.X), Y: cp(b.Y)}
	for k, m := 0, rapid.IntRange(1, 3).Draw(t, "gaps"); k < m; k++ {
		i := rapid.IntRange(0, n-1).Draw(t, "gap_at")
		switch rapid.IntRange(0, 5).Draw(t, "gap_field") {
		case 0:
			c.High[i] = math.NaN()
		case 1:
			c.Low[i] = math.NaN()
		case 2:
			c.Close[i], c.X[i] = math.NaN(), math.NaN()
		case 3:
			c.Volume[i] = math.NaN()
		case 4:
			c.Open[i], c.Y[i] = math.NaN(), math.NaN()
		default:
			c.Open[i], c.High[i], c.Low[i], c.Close[i], c.Volume[i], c.X[i], c.Y[i] = math.NaN(), math.NaN(), math.NaN(), math.NaN(), math.NaN(), math.NaN(), math.NaN()
		}
	}
	return c
}

// Narrow returns a copy of the bars in which about a third of the rows have a range of one to
// three units in the last place of the price (a tick the size of the float spacing: what an
// illiquid or extremely high quote looks like), closing at the low, the high or in between. The
// bars stay Valid; ratios of differences of such bars are exact in floating point only if they
// are formed as differences first.
func Narrow(t *rapid.T, b Bars) Bars {
	cp := func(xs []float64) []float64 { return append([]float64{}, xs...) }
	c := Bars{Class: b.Class + "+narrow", Exp: b.Exp, Open: cp(b.Open), High: cp(b.High), Low: cp(b.Low), Close: cp(b.Close), Volume: cp(b.Volume), X: cp(b.X), Y: cp(b.Y)}
	for i := range c.Close {
		if rapid.IntRange(0, 2).Draw(t, "narrow") != 1 {
			continue
		}
		lo := c.Low[i]*1.0000001 + 0.1 // off the dyadic grid
		hi := lo
		for k, m := 0, rapid.IntRange(1, 3).Draw(t, "ulps"); k < m; k++ {
			hi = math.Nextafter(hi, math.Inf(1))
		}
		c.Low[i], c.High[i] = lo, hi
		switch rapid.IntRange(0, 2).Draw(t, "close_at") {
		case 0:
			c.Close[i], c.Open[i] = lo, hi
		case 1:
			c.Close[i], c.Open[i] = hi, lo
		default:
			c.Close[i], c.Open[i] = math.Nextafter(lo, math.Inf(1)), lo
			if c.Close[i] > hi {
				c.Close[i] = hi
			}
		}
	}
	return c
}

// Unordered returns a copy of the bars whose columns no longer respect low <= open, close <= high
// on about a third of the rows (high and low swapped, the close pushed outside the range): the
// indicators take plain numeric channels, and their documented formulas are defined for any
// numbers. Only for C01 (formula equality); the bars are no longer Valid.
func Unordered(t *rapid.T, b Bars) Bars {
	cp := func(xs []float64) []float64 { return append([]float64{}, xs...) }
	c := Bars{Class: b.Class + "+unordered", Exp: b.Exp, Open: cp(b.Open), High: cp(b.High), Low: cp(b.Low), Close: cp(b.Close), Volume: cp(b.Volume), X: cp(b.X), Y: cp(b.Y)}
	for i := range c.Close {
		switch rapid.IntRange(0, 5).Draw(t, "unordered") {
		case 1:
			c.High[i], c.Low[i] = c.Low[i], c.High[i]
		case 3:
			// the previous close lies strictly between a high and a low that are crossed
			if i > 0 {
				c.High[i], c.Low[i] = c.Close[i-1]*0.875, c.Close[i-1]*1.125
			}
		case 4:
			c.Close[i] = c.High[i] * 1.25
		}
	}
	return c
}

// GenBarsAny is GenBars for the properties that quantify over ALL series (termination, counts, no
// look-ahead): in 1/8 of the draws a few values are missing.
func GenBarsAny(t *rapid.T, n int) Bars {
	b := GenBars(t, n)
	if rapid.IntRange(0, 7).Draw(t, "with_gaps") == 0 {
		b = WithGaps(t, b)
	}
	return b
}

// HasGaps reports whether any value is NaN.
func (b Bars) HasGaps() bool { return strings.HasSuffix(b.Class, "+gaps") }

// Len is the number of bars.
func (b Bars) Len() int { return len(b.Close) }

// Field returns the series of the given name.
func (b Bars) Field(name string) []float64 {
	switch name {
	case "open":
		return b.Open
	case "high":
		return b.High
	case "low":
		return b.Low
	case "close":
		return b.Close
	case "volume":
		return b.Volume
	case "x":
		return b.X
	case "y":
		return b.Y
	}
	return nil
}

// Cut returns the first n bars.
func (b Bars) Cut(n int) Bars {
	return Bars{Class: b.Class, Exp: b.Exp, Open: b.Open[:n], High: b.High[:n], Low: b.Low[:n], Close: b.Close[:n], Volume: b.Volume[:n], X: b.X[:n], Y: b.Y[:n]}
}

// Unscaled returns the bars at their natural unit (divided by 2^Exp, which is exact).
func (b Bars) Unscaled() Bars {
	if b.Exp == 0 {
		return b
	}
	f := math.Ldexp(1, -b.Exp)
	mul := func(xs []float64) []float64 {
		out := make([]float64, len(xs))
		for i, x := range xs {
			out[i] = x * f
		}
		return out
	}
	return Bars{Class: b.Class, Open: mul(b.Open), High: mul(b.High), Low: mul(b.Low), Close: mul(b.Close), Volume: b.Volume, X: mul(b.X), Y: mul(b.Y)}
}

// Classes of series.
var Classes = []string{"walk", "walk", "walk", "flat", "monotone", "sawtooth", "ties", "zeros", "spikes", "decimal", "flatbars", "decimalflat", "decimalspikes"}

// quantum is the grid of the dyadic classes: multiples of 1/16 with at most ~14 significant bits,
// so that windowed sums and products of a few values are exact in float64.
const quantum = 1.0 / 16

func q(units int) float64 { return float64(units) * quantum }

// GenBars draws n bars of a drawn class. Prices are positive, low <= open, close <= high,
// volume >= 0; ties between the fields and between consecutive bars are allowed and frequent.
func GenBars(t *rapid.T, n int) Bars {
	class := rapid.SampledFrom(Classes).Draw(t, "class")
	return GenBarsOf(t, n, class)
}

// GenBarsOf draws n bars of the given class.
func GenBarsOf(t *rapid.T, n int, class string) Bars {
	shape := class
	switch class {
	case "decimalflat":
		shape = "flat"
	case "decimalspikes":
		shape = "spikes"
	}
	b := Bars{Class: class, Open: make([]float64, n), High: make([]float64, n), Low: make([]float64, n), Close: make([]float64, n), Volume: make([]float64, n), X: make([]float64, n), Y: make([]float64, n)}
	if n == 0 {
		return b
	}
	step := rapid.IntRange(-40, 40)
	small := rapid.IntRange(0, 24)
	// closing walk in grid units, kept >= 16 units (price >= 1)
	cu := make([]int, n)
	cur := rapid.IntRange(160, 4000).Draw(t, "c0")
	dir := 1
	if rapid.Bool().Draw(t, "dir") {
		dir = -1
	}
	for i := 0; i < n; i++ {
		switch shape {
		case "flat":
			// long constant runs with an occasional jump
			if rapid.IntRange(0, 7).Draw(t, "jump") == 0 {
				cur += step.Draw(t, "d")
			}
		case "monotone":
			cur += dir * rapid.IntRange(1, 30).Draw(t, "d")
		case "sawtooth":
			if i%2 == 0 {
				cur += rapid.IntRange(1, 40).Draw(t, "d")
			} else {
				cur -= rapid.IntRange(1, 40).Draw(t, "d")
			}
		case "ties":
			cur += 16 * rapid.IntRange(-1, 1).Draw(t, "d")
		case "spikes":
			if rapid.IntRange(0, 5).Draw(t, "spike") == 0 {
				cur += dir * rapid.IntRange(200, 1500).Draw(t, "d")
				dir = -dir
			} else {
				cur += rapid.IntRange(-8, 8).Draw(t, "d")
			}
		default:
			cur += step.Draw(t, "d")
		}
		if cur < 16 {
			cur = 16 + (16-cur)%64
		}
		if cur > 60000 {
			cur = 60000 - (cur-60000)%64
		}
		cu[i] = cur
	}
	scale := 1.0
	for i := 0; i < n; i++ {
		c := cu[i]
		o := c
		if class != "flatbars" && i > 0 {
			// open near the previous close, sometimes equal to it
			o = cu[i-1] + rapid.IntRange(-10, 10).Draw(t, "gap")
			if o < 16 {
				o = 16
			}
		}
		hi, lo := c, c
		if o > hi {
			hi = o
		}
		if o < lo {
			lo = o
		}
		if class != "flatbars" || rapid.IntRange(0, 3).Draw(t, "notflat") == 0 {
			hi += small.Draw(t, "up")
			lo -= small.Draw(t, "down")
		}
		if lo < 8 {
			lo = 8
		}
		b.Open[i], b.High[i], b.Low[i], b.Close[i] = q(o)*scale, q(hi)*scale, q(lo)*scale, q(c)*scale
		v := rapid.IntRange(0, 5000).Draw(t, "vol")
		if class == "zeros" && rapid.IntRange(0, 2).Draw(t, "vz") == 0 {
			v = 0
		}
		if class == "ties" {
			v = 100 * (v % 4)
		}
		b.Volume[i] = float64(v)
		// free numeric series: zeros, negatives, ties
		x := rapid.IntRange(-400, 400).Draw(t, "x")
		switch shape {
		case "zeros":
			if rapid.IntRange(0, 2).Draw(t, "xz") == 0 {
				x = 0
			}
		case "ties":
			x = 16 * (x % 3)
		case "flat":
			if i > 0 && rapid.IntRange(0, 7).Draw(t, "xj") != 0 {
				x = int(b.X[i-1] / quantum)
			}
		case "monotone":
			if i > 0 {
				x = int(b.X[i-1]/quantum) + dir*(1+((x%20)+20)%20)
			}
		}
		b.X[i] = q(x)
		b.Y[i] = q(rapid.IntRange(-400, 400).Draw(t, "y"))
	}
	if class == "decimal" || class == "decimalflat" || class == "decimalspikes" {
		// what a CSV download looks like: two-decimal prices, not exactly representable
		for i := 0; i < n; i++ {
			r := func(v float64) float64 { return math.Round(v*100*1.37) / 100 }
			o, c := r(b.Open[i]), r(b.Close[i])
			hi, lo := r(b.High[i]), r(b.Low[i])
			hi = math.Max(hi, math.Max(o, c))
			lo = math.Min(lo, math.Min(o, c))
			b.Open[i], b.High[i], b.Low[i], b.Close[i] = o, hi, lo, c
			b.X[i] = math.Round(b.X[i]*100*1.37) / 100
			b.Y[i] = math.Round(b.Y[i]*100*1.37) / 100
			b.Volume[i] = b.Volume[i]*13 + 7
		}
	}
	// the unit of quote: an exact power-of-two factor on prices (not on volumes); an absolute
	// tolerance or threshold in price units shows here and nowhere else
	if rapid.IntRange(0, 5).Draw(t, "scaled") == 0 {
		b.Exp = rapid.SampledFrom([]int{-40, -32, -20, -10, 10, 20, 30}).Draw(t, "exp")
		f := math.Ldexp(1, b.Exp)
		for i := 0; i < n; i++ {
			b.Open[i] *= f
			b.High[i] *= f
			b.Low[i] *= f
			b.Close[i] *= f
			b.X[i] *= f
			b.Y[i] *= f
		}
	}
	return b
}

// Valid reports whether bars satisfy the OHLCV validity rules (a harness self-check).
func (b Bars) Valid() bool {
	for i := range b.Close {
		if !(b.Low[i] > 0 && b.Low[i] <= b.Open[i] && b.Low[i] <= b.Close[i] && b.Open[i] <= b.High[i] && b.Close[i] <= b.High[i] && b.Volume[i] >= 0) {
			return false
		}
	}
	return true
}

// VeryLong returns, rarely, an input length just around 2^14, 2^15 or 2^16 (else 0): for the
// properties whose own length generators stay near the warm-up. About one draw in 7000 (one in
// 750 in the thorough tier).
func VeryLong(t *rapid.T) int {
	rate, hit := 2999, 1517
	if engine.Thorough() {
		rate, hit = 299, 157
	}
	if rapid.IntRange(0, rate).Draw(t, "very_long_input") != hit {
		return 0
	}
	return 1<<rapid.IntRange(14, 16).Draw(t, "len_log2_big") + rapid.IntRange(-3, 40).Draw(t, "len_off")
}

// GenLen draws an input length biased to the interesting regime around the warm-up w:
// [0, 2w+3] in most draws, with a tail up to a few hundred.
func GenLen(t *rapid.T, w int, tail int) int {
	// rarely (about one draw in 600, one in 100 in the thorough tier; an interior value is asked
	// for because rapid's integer generator favours the bounds of a range): a long input just
	// around a power of two between 2^8 and 2^16 - block sizes, re-synchronisation intervals and
	// buffer limits live there
	rate, hit := 249, 137
	if engine.Thorough() {
		rate, hit = 49, 23
	}
	if rapid.IntRange(0, rate).Draw(t, "long_input") == hit {
		// mostly 2^8 .. 2^13; some long inputs go on to 2^14 .. 2^16 (the sizes at which
		// 16-bit counters wrap and "refresh every 65536 values" safeguards fire)
		e := rapid.IntRange(8, 13).Draw(t, "len_log2")
		big, bigHit := 29, 13 // quick tier: a few dozen such inputs per run
		if engine.Thorough() {
			big, bigHit = 15, 7
		}
		if rapid.IntRange(0, big).Draw(t, "very_long") == bigHit {
			e = rapid.IntRange(14, 16).Draw(t, "len_log2_big")
		}
		return 1<<e + rapid.IntRange(-3, 40).Draw(t, "len_off")
	}
	k := rapid.IntRange(0, 9).Draw(t, "len_class")
	switch {
	case k < 2:
		// exactly around the warm-up
		d := rapid.IntRange(-2, 3).Draw(t, "len_d")
		if w+d < 0 {
			return 0
		}
		return w + d
	case k < 7:
		return rapid.IntRange(0, 2*w+3).Draw(t, "len")
	default:
		hi := 3*w + 20
		if hi > tail {
			hi = tail
		}
		if hi < 2*w+4 {
			hi = 2*w + 4
		}
		return rapid.IntRange(w+1, hi).Draw(t, "len")
	}
}
