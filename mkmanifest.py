#!/usr/bin/env python3
"""Regenerates MANIFEST.json from vconfig.py (single source of truth) and validates it."""
import json, os, sys
ROOT = os.path.dirname(os.path.abspath(__file__))
sys.path.insert(0, ROOT)
from vconfig import CONFIG, HOOKS
props = [json.loads(l) for l in open(os.path.join(ROOT, "properties.jsonl"))]
checks, na = [], []
for p in props:
    pid = p["id"]
    c = CONFIG.get(pid)
    if not c:
        na.append({"property_id": pid, "reason": "check not built yet (work in progress; see DESIGN.md section 3 for the planned generated-input check)"})
        continue
    checks.append({
        "property_id": pid,
        "quick_cmd": "./vcheck %s quick" % pid,
        "thorough_cmd": "./vcheck %s thorough" % pid,
        "evidence_file": "/verif/evidence/%s.json" % pid,
        "replay_cmd_template": "./vcheck %s --replay {path}" % pid,
        "engine": "vcheck",
        "level_claimed": {"category": "exploration", "text": c["level_text"], "design_ref": "DESIGN.md section 3, " + pid},
        "level_note": c["level_note"],
        "technique": c["technique"],
    })
m = {
    "version": 1,
    "setup_cmd": "./setup.sh",
    "hooks": HOOKS,
    "engines": [{"name": "vcheck", "path": "/verif/vcheck", "serves_properties": [c["property_id"] for c in checks],
                 "kind_free_text": "python driver around Go test binaries (pgregory.net/rapid generated-input checks with explicit oracles, JSON replay files, native go fuzzing in thorough tiers); rebuilds from /repo's working tree on every call"}],
    "checks": checks,
    "not_applicable": na,
    "notes": "All checks are property-based tests / fuzzers (one technique family). Exit 2 from a check means infrastructure trouble (build failure, timeout), never a verdict. KNOWN_FINDINGS.txt lists recorded genuine defects (known:) and repaired ones (fixed:).",
}
json.dump(m, open(os.path.join(ROOT, "MANIFEST.json"), "w"), indent=1)
try:
    import jsonschema
    jsonschema.validate(m, json.load(open("/root/.vp/MANIFEST.schema.json")))
    print("MANIFEST.json valid:", len(checks), "checks,", len(na), "not applicable")
except ImportError:
    print("jsonschema not available; written without validation")
