# Per-property run configuration for vcheck.  Budgets are case counts, never time limits; the
# timeouts below only turn a wedged process into exit 2 (inconclusive).
HOOKS = {
    "guard": "verif",
    "enable": "no hooks are needed: the harness is an external Go module (replace => /repo) that uses only exported API plus reflection",
    "baseline_off_cmd": "cd /repo && go test -mod=mod -vet=off -count=1 ./...",
    "source_commits": [],
    "add_only": True,
}

CONFIG = {
    "C17": {
        "rule": "rapid-generated operation histories (0-40 ops) per element type over an alphabet that holds the type's extremes, "
                "+-0/subnormals for floats and a narrow middle band (many duplicates); Ring capacities 1-6. Oracle: bounded FIFO slice / "
                "multiset map, every observer compared after every step plus a final drain. Non-trivial: Bst history with a successful "
                "Remove of a duplicated key or of an interior key (neither min nor max among >=3 distinct keys); Ring history with an "
                "overwrite (wrap-around) followed by a successful Get. Distinct = different (subject, capacity, op list).",
        "technique": "stateful property-based testing (rapid) against FIFO / multiset reference models; native go fuzz in thorough",
        "level_text": "Generated operation histories for every supported element type are executed against the real Ring/Bst and a slice / multiset model, all observers compared after every step. Sampling, not proof: it shows absence of disagreement on tens of thousands of distinct histories biased to type extremes, duplicates and two-children removals.",
        "level_note": "Trusts the Go runtime and the model (a slice and a map). Histories up to 40 operations, capacities up to 6.",
        "assumptions": ["Bst.Min/Max on an empty tree and Ring.Put's return value on a non-full ring are unspecified and not compared",
                        "NaN and infinities are not inserted (ordering undefined / not JSON-representable)"],
        "quick": {"checks": 4000, "shards": 1},
        "thorough": {"checks": 60000, "shards": 4, "fuzz": [("FuzzBstInt8", 40), ("FuzzRing", 20)]},
    },
}
