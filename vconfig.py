# Per-property run configuration for vcheck.  Budgets are case counts, never time limits; the
# timeouts below only turn a wedged process into exit 2 (inconclusive).
HOOKS = {
    "guard": "verif",
    "enable": "no hooks are needed: the harness is an external Go module (replace => /repo) that uses only exported API plus reflection",
    "baseline_off_cmd": "cd /repo && go test -mod=mod -vet=off -count=1 ./...",
    "source_commits": [],
    "add_only": True,
}

CONFIG = {
    "C17": {
        "rule": "rapid-generated operation histories (0-40 ops) per element type over an alphabet that holds the type's extremes, "
                "+-0/subnormals for floats and a narrow middle band (many duplicates); Ring capacities 1-6. Oracle: bounded FIFO slice / "
                "multiset map, every observer compared after every step plus a final drain. Non-trivial: Bst history with a successful "
                "Remove of a duplicated key or of an interior key (neither min nor max among >=3 distinct keys); Ring history with an "
                "overwrite (wrap-around) followed by a successful Get. Distinct = different (subject, capacity, op list).",
        "technique": "stateful property-based testing (rapid) against FIFO / multiset reference models; native go fuzz in thorough",
        "level_text": "Generated operation histories for every supported element type are executed against the real Ring/Bst and a slice / multiset model, all observers compared after every step. Sampling, not proof: it shows absence of disagreement on tens of thousands of distinct histories biased to type extremes, duplicates and two-children removals.",
        "level_note": "Trusts the Go runtime and the model (a slice and a map). Histories up to 40 operations, capacities up to 6.",
        "assumptions": ["Bst.Min/Max on an empty tree and Ring.Put's return value on a non-full ring are unspecified and not compared",
                        "NaN and infinities are not inserted (ordering undefined / not JSON-representable)"],
        "quick": {"checks": 4000, "shards": 1},
        "thorough": {"checks": 60000, "shards": 4, "fuzz": [("FuzzBstInt8", 40), ("FuzzRing", 20)]},
    },
    "C16": {
        "rule": "one rapid property per exported stream helper and element type (int, float64): inputs of length 0-14 over small values with "
                "zeros, negatives and ties, count/size parameters 0-16 (so that parameter > length is common), 1-3 inputs with independent "
                "lengths in two thirds of the draws, input channel capacity 0-4, optional producer/consumer pacing masks. Oracle: a pure slice "
                "function per helper, compared bit for bit; the pipeline must close every output, leave no goroutine behind (goroutine census) "
                "and consume every input to its end (Head excepted by design). Non-trivial: empty input, or parameter >= input length, or "
                "unequal input lengths (helper-specific rule for Duplicate, Seq, Since, Echo). Distinct = different (helper, type, inputs, parameters, capacity).",
        "technique": "property-based testing (rapid) of each helper against a slice reference model, with a goroutine-census termination/leak oracle",
        "level_text": "Every exported stream helper is run on generated inputs, parameters, unequal lengths and channel capacities and compared bit for bit with a slice function; termination, input consumption and goroutine leaks are decided by consistent goroutine snapshots, not timeouts. Sampling of a small-size space that is dense in the edge regimes (empty, parameter beyond length, unequal lengths).",
        "level_note": "Trusts the slice models written from the helpers' doc comments. Domain restrictions: Last/Echo/Duplicate parameters >= 1, Echo memory <= input length, positive Seq increment, non-zero integer divisors, non-negative integer Sqrt inputs. Lengths <= 14, parameters <= 16.",
        "assumptions": ["Head leaves the remaining input unread by design (Ema relies on it); its producer is given a channel large enough to finish",
                        "helpers are exercised over int and float64 only"],
        "gomaxprocs": [1, 1, 2, 4],
        "quick": {"checks": 500, "shards": 8},
        "thorough": {"checks": 12000, "shards": 16},
    },
    "C01": {
        "rule": "one rapid property per registry entry (61 Compute methods plus Envelope/Atr/SuperTrend variants): admissible configuration "
                "(periods 1-8 in ~70% of draws, 9-30 in ~20%, up to 3x default in ~10%, defaults in 5%; ordering constraints by construction), "
                "input length biased to [0, 2w+3] with a tail to 260, OHLCV/numeric series of a drawn class (walk, flat, monotone, sawtooth, "
                "ties, zeros, spikes, two-decimal, flat bars; dyadic values so that window sums are exact). Oracle: a slice reference written "
                "from the type's doc comment over absolute input positions with propagated first-order error bounds; positions whose bound is "
                "infinite (zero/cancelling denominator, ambiguous comparison) are exempt. Non-trivial: n > warm-up and >= 1 compared position. "
                "Distinct = different (indicator, configuration, length, series hash).",
        "technique": "property-based testing (rapid) against doc-comment reference models with derived error bounds; known defects matched by executable defect models",
        "level_text": "Each indicator is run on generated configurations/series and compared position by position with an independent slice model of its documented formula; alignment is by absolute position so look-alike pipelines with shifted branches are exposed. Sampling over small periods and short series, where an off-by-one changes every output.",
        "level_note": "Trusts the reference models (ref/, reg/) as readings of the doc comments; readings chosen where the comment is silent are listed in each entry's Doc string and in DESIGN.md and are not claimed. float64 instantiations only. Periods <= 90, series <= 260.",
        "assumptions": ["references are transcriptions of the doc comments; where a comment is silent (seed of recursive averages, SuperTrend's first value, MFI's flow sign, Po's slope, Chandelier's period high, causal Ichimoku lagging span) the code's reading is used and not claimed",
                        "error bounds are first-order with a slack factor of 16"],
        "gomaxprocs": [1],
        "quick": {"checks": 600, "shards": 16},
        "thorough": {"checks": 5000, "shards": 16, "timeout": 7200},
    },
    "C02": {
        "rule": "one rapid property per registry entry: admissible configuration (as C01), input length n uniform in [0, 2w+3] (w = declared idle period; "
                "10% of draws up to 3w+30), equal-length inputs. Oracle: every output has exactly max(0, n-w) values; w equals the input position at which "
                "the doc-comment reference yields its first value; for window-type indicators no change of a bar later than position k+w changes output k "
                "and output k reacts to a change of bar k+w whenever the reference does. Thorough additionally enumerates every configuration with all "
                "periods <= 4 and every n <= 2w+3 for the length law. Non-trivial: n <= w+2 or a multi-output indicator. Distinct = (indicator, configuration, n).",
        "technique": "property-based testing (rapid) of the length law and dependence frontier; exhaustive enumeration of small configurations in thorough",
        "level_text": "The number of values on every output is compared with n - IdlePeriod() for generated configurations and lengths concentrated around the warm-up, the declared idle period is cross-checked against the position of the reference formula's first value, and a perturbation probe checks which input position each output reacts to. Thorough sweeps all periods <= 4 x all n <= 2w+3 exhaustively.",
        "level_note": "Trusts the registry's transcription of which IdlePeriod belongs to which configuration; Apo, Aroon, Bop, TypicalPrice have no IdlePeriod method and use the warm-up their formula implies. Sensitivity probes are skipped for indicators with a recorded formula defect.",
        "assumptions": ["multi-input indicators are fed equal lengths (unequal lengths are C03's)"],
        "gomaxprocs": [1],
        "quick": {"checks": 300, "shards": 16},
        "thorough": {"checks": 4000, "shards": 16, "timeout": 7200},
    },
    "C07": {
        "rule": "k in [1,5] scripted sources replaying generated action words over {Sell,Hold,Buy} (length 0-40, densities from sparse to dense), positive closing "
                "walks, stop-loss fraction in [0,1) in 64ths, a permutation of the sources and a decorator nesting of depth 0-3 over {Inverse, NoLoss, StopLoss}; "
                "MACD-RSI on generated OHLCV with generated thresholds. Oracle: slice re-statement of each doc comment over denormalised streams (And/Or/Majority "
                "vote, Split rule, Inverse swap, No-Loss / Stop-Loss state machines composed for nestings), plus relations that do not mention the rule: permutation "
                "invariance, And(s)=Or(s)=Majority(s)=Denormalize(s), Inverse(Inverse)=id, And => Or, and the history invariants of the statement (every emitted "
                "Sell above its purchase close; Sell at the first close at or below the stop level; Buy/Sell alternate). Non-trivial: a word set with both a "
                "conflict position and a unanimous one, or a suppressed No-Loss Sell, or a triggered stop. Distinct = (words, closes, fraction, nesting).",
        "technique": "property-based testing (rapid) with scripted stub strategies against slice models and metamorphic relations",
        "level_text": "Combinators and decorators are driven by scripted stub strategies replaying arbitrary generated action words, so the full space of vote patterns (ties, conflicts, leading Holds, repeats) is sampled, and compared with slice models plus model-free relations and trading-history invariants.",
        "level_note": "Sources emit exactly one action per snapshot (C05); unequal source lengths are outside this check. MACD-RSI uses the real sub-strategies at their default periods.",
        "assumptions": ["closing prices are positive; stop-loss percentage is a fraction in [0,1) as the code's closing*(1-Percentage) presupposes"],
        "gomaxprocs": [1, 2],
        "quick": {"checks": 1500, "shards": 8},
        "thorough": {"checks": 40000, "shards": 16, "timeout": 7200},
    },
    "C08": {
        "rule": "action words over {Sell,Hold,Buy} (10% of cases also carry illegal values -2, 2, 3) of length 0-60 with varying density x positive value series "
                "(dyadic walk, two-decimal, or wide range 2^-10..2^20), lengths unequal in 25% of cases. Oracle: a (cash, units) slice simulator of the statement; "
                "entries = min(len); outcome >= -1; exactly 0 before the first Buy; buy-and-hold = v_i/v_0 - 1 within 4 ulp; Outcome(v,a) bitwise equal to "
                "Outcome(v, Normalize(a)); normalised streams alternate Buy/Sell from Buy; Normalize(Denormalize(x)) = x on normalised x; Normalize/Denormalize/"
                "CountTransactions equal their slice models; ComputeWithOutcome = (Compute, Outcome). Non-trivial: >= 2 completed round trips and >= 1 redundant action.",
        "technique": "property-based testing (rapid) against a portfolio state-machine model plus metamorphic relations",
        "level_text": "The accounting state machine is compared with an independent (cash, units) simulator on generated action histories and value series, and the statement's invariants (floor, zero before first Buy, buy-and-hold identity, invariance under removal of redundant actions, alternation) are checked directly.",
        "level_note": "Values are positive finite floats in [2^-10, 2^20]; the simulator comparison uses a relative tolerance of 1e-12, the redundancy relation is bitwise.",
        "assumptions": ["values are positive"],
        "gomaxprocs": [1, 2],
        "quick": {"checks": 3000, "shards": 8},
        "thorough": {"checks": 80000, "shards": 16, "timeout": 7200},
    },
    "C05": {
        "rule": "one rapid property per base strategy (every AllStrategies registry entry, the unregistered Trix/Envelope strategies, every With-constructor through "
                "generated periods 1-9 and thresholds; the plain constructor in ~8% of draws) plus one over generated decorator/compound expressions of depth <= 2 "
                "(Inverse, NoLoss, StopLoss, And, Or, Majority, Split, MACD-RSI over base strategies); snapshot count n biased to {0, 1, w-1, w, w+1} and [0, 3w+5]. "
                "Oracle: every action in {Sell, Hold, Buy}; n >= w: exactly n actions and the first w are Hold; n < w: only Holds and at least n. w per strategy from its "
                "documented indicator warm-up (+1 for the cross-over rules of Apo and Qstick); expressions: max over And children, min otherwise. "
                "Non-trivial: n >= w with a non-Hold action, or n within 1 of w. Distinct = (strategy, configuration, n, closes).",
        "technique": "property-based testing (rapid) of the action-count / warm-up law over generated strategies, configurations, decorator/compound expressions and lengths",
        "level_text": "Every strategy is run on generated snapshot counts concentrated around its warm-up and its action stream is checked for length, alphabet and leading Holds; decorated and compound expressions are generated as trees. Sampling; small periods make off-by-one shifts visible at every length.",
        "level_note": "Warm-ups are transcribed per strategy in sreg/entries.go from the indicator warm-up each doc comment implies. Strategies with a recorded one-day lag (Alligator, Smma) are excluded from compounds by construction (counted).",
        "assumptions": ["TripleRsi: SMA period > RSI period, as its comment presupposes; Dema strategy: the second DEMA does not warm up before the first"],
        "gomaxprocs": [1],
        "quick": {"checks": 200, "shards": 16},
        "thorough": {"checks": 4000, "shards": 16, "timeout": 7200},
    },
    "C06": {
        "rule": "one rapid property per base strategy: generated periods/thresholds (plain constructor in 5% of draws), n in [w, w+70], OHLCV of a drawn class with the five fields "
                "varying independently. Oracle: the documented decision rule (transcribed in sreg/entries.go with its source sentence) applied position by position to the "
                "library's own indicator computed by the harness from the documented price fields, aligned by the indicator's warm-up; positions where compared quantities "
                "are equal within 1e-9 or undefined are exempt. Non-trivial: >= 1 Buy and >= 1 Sell expected. Distinct = (strategy, configuration, closes, highs, volumes).",
        "technique": "property-based differential testing (rapid): strategy output vs documented rule over the library's own indicator on independently varying OHLCV fields",
        "level_text": "The action stream of each base strategy is compared with its documented rule evaluated by the harness on the real indicator fed from the documented fields; because the fields vary independently a wrong field, an inverted comparison or a recommendation attached to the wrong day shows up as a contradiction. Sampling.",
        "level_note": "Where the code is merely stricter than a vague comment (MACD zero-line guard) or the type comment gives no rule (Alligator, AwesomeOscillator, Rsi, StochasticRsi) the code's rule is the oracle and is not claimed. Indicator formula defects are C01's, not reported here.",
        "assumptions": ["rules are transcriptions of the strategy doc comments"],
        "gomaxprocs": [1],
        "quick": {"checks": 150, "shards": 16},
        "thorough": {"checks": 3000, "shards": 16, "timeout": 7200},
    },
    "C04": {
        "rule": "one rapid property per indicator registry entry, per base strategy, and one over generated decorator/compound expressions: configuration x series s of "
                "length n in [0, 3w+20] x cut point m (80% in (w, n], 20% anywhere in [0, n]) x a freshly generated replacement suffix s'. Oracle, bitwise: the run on s[0:m] "
                "yields exactly the values/actions of the run on s for positions < m (none missing, none extra), and the run on s[0:m].s' agrees with the run on s on all "
                "positions < m. Non-trivial: w < m < n with >= 1 compared value (strategies: >= 1 non-Hold action in the prefix). Distinct = (subject, configuration, m, n, series).",
        "technique": "metamorphic property-based testing (rapid): prefix-consistency and suffix-independence of every indicator and strategy, compared bit for bit",
        "level_text": "Three executions per case (whole series, prefix, prefix with another suffix) are compared bit for bit on all positions before the cut, for every indicator, every base strategy and generated decorated/compound strategies. No reference model and no tolerance is involved. Sampling.",
        "level_note": "Strategies with the recorded one-day lag are late, not early, and pass this check; only the first n actions of a strategy count as recommendations.",
        "assumptions": ["pipelines are deterministic functions of their inputs (checked separately by C03)"],
        "gomaxprocs": [1],
        "quick": {"checks": 100, "shards": 16},
        "thorough": {"checks": 2500, "shards": 16, "timeout": 7200},
    },
    "C18": {
        "rule": "one rapid property per indicator registry entry, per base strategy and one over generated decorator/compound expressions: configuration x series x factor 2^k "
                "(k in [-30,30], k != 0; |k| <= 8 in two thirds of the draws) applied to all prices (open, high, low, close, free numeric inputs) or to all volumes. Oracle, bitwise: each indicator output equals the "
                "unscaled output times 2^(k*degree) with the registry's homogeneity degree (price 0/1/2, volume -1/0/1; not claimed for Mls/Mlr), NaN positions coincide; every "
                "strategy's action stream is identical. Non-trivial: n > warm-up with a non-constant output / >= 1 non-Hold action. Distinct = (subject, configuration, k, unit, series).",
        "technique": "metamorphic property-based testing (rapid): exact power-of-two scale covariance, compared bit for bit",
        "level_text": "Power-of-two rescaling commutes exactly with IEEE +, -, x, /, sqrt away from over/underflow, so every output is compared bit for bit with the unscaled output times 2^(k*degree), and action streams must be identical. Needs no reference and no tolerance; exposes absolute thresholds, price/volume mix-ups and constants on the wrong side. Sampling.",
        "level_note": "Homogeneity degrees are read off the doc-comment formulas (reg/*.go). Values stay far from overflow/underflow (prices < 2^12, |k| <= 30, so squares and price x volume products stay within 2^-80 .. 2^110).",
        "assumptions": ["degrees per output as listed in the registry"],
        "gomaxprocs": [1],
        "quick": {"checks": 100, "shards": 16},
        "thorough": {"checks": 2500, "shards": 16, "timeout": 7200},
    },
    "C15": {
        "rule": "one rapid property per claimed indicator (22 registry entries): admissible configuration x valid OHLCV of a drawn class (walk, flat, monotone, sawtooth, ties, zeros, "
                "spikes, two-decimal, flat bars; positive prices, low <= open, close <= high, volume >= 0; single-series indicators are fed the closes), n in [0, 3w+40]. Oracle: the "
                "inequalities of the statement with tolerance 1e-9 x scale; a position is exempt when the output is NaN/Inf or - for quotient-type indicators - the doc-comment "
                "reference is undefined there (zero defining denominator, decided by error-tracked arithmetic, not by the output). Non-trivial: >= 1 checked value and a value "
                "at/within 1% of a bound or a tie-rich series. Distinct = (indicator, configuration, series).",
        "technique": "property-based testing (rapid) of range / ordering invariants on generated valid OHLCV, reference used only to decide exemptions",
        "level_text": "Range and ordering inequalities are asserted on every emitted value for generated valid OHLCV series rich in ties, flat bars, monotone runs and zero volumes; no reference value enters the verdict, only the exemption for zero denominators. Sampling.",
        "level_note": "Exemptions come from the reference's denominators (reg/ + ref/). Aroon's recorded defect is matched by its defect model and reported as a known finding.",
        "assumptions": ["valid OHLCV as generated by gen.GenBarsOf (self-checked per case)"],
        "gomaxprocs": [1],
        "quick": {"checks": 400, "shards": 16},
        "thorough": {"checks": 8000, "shards": 16, "timeout": 7200},
    },
    "C14": {
        "rule": "one rapid property per base strategy (generated periods/thresholds, plain constructor in 5%) and one over generated decorator/compound expressions; snapshot series of "
                "length w+1 .. w+60 and a prefix length m. The date channel and every column channel of Report() are drained concurrently through reflection. Oracle: all counts equal; "
                "dates are snapshot dates in increasing order; in the row of date d the Close column is that snapshot's close, the annotation is that of the normalised action "
                "Compute recommends on d, the Outcome column is 100 x outcome as of d (bitwise); alignment (i) the report of the first m snapshots equals, bitwise and matched by "
                "date, the first rows of the full report; alignment (ii) moving-average columns in the newest row react to a change of the newest snapshot. Thorough renders the "
                "HTML and parses every data.addRow line against the channel contents. Non-trivial: n >= w+2 and >= 1 annotation. Distinct = (strategy expression, n, m, closes).",
        "technique": "property-based testing (rapid) of report column streams read through reflection: count equality, per-date row oracle, prefix-consistency and newest-bar sensitivity metamorphic relations",
        "level_text": "Every report column is drained independently and compared with the date axis; rows are checked against the snapshot, the strategy's own normalised actions and Outcome; indicator columns are checked for alignment without assuming which price fields feed them (prefix-consistency catches early plotting, newest-bar sensitivity catches late plotting of moving-average columns). Sampling.",
        "level_note": "Reads the unexported `values` channel of the two column types by reflection (no source hook). Late-plotting probe covers columns that are plain moving averages (listed in the test); which price fields a report feeds its indicator (e.g. KdjStrategy.Report feeding highs where lows are meant) is outside the statement and not asserted.",
        "assumptions": ["column channel field is named `values` (harness reports an infrastructure error otherwise)"],
        "gomaxprocs": [1],
        "quick": {"checks": 60, "shards": 16},
        "thorough": {"checks": 1200, "shards": 16, "timeout": 7200},
    },
    "C03": {
        "rule": "one rapid property per indicator registry entry (configuration x per-input lengths: common n in [0, 2w+6] or up to 3w+40, each input independently redrawn in [0, n+8] "
                "in a third of the draws), per base strategy and one over decorator/compound expressions (snapshot counts biased to <= warm-up), each x input channel capacity in "
                "{0,0,1,2,3,4,8} x GOMAXPROCS in {1,2,4,16} x producer/consumer pacing masks (a runtime.Gosched before element i when bit i%64 is set); every output drained by its own "
                "reader. Oracle: (a) no deadlock: never a state in which all goroutines of the case are parked with outputs still open; (b) after completion no goroutine of the case "
                "remains and every input was consumed to its end (both decided by consistent goroutine snapshots, runtime.Stack(all), not by timeouts); (c) outputs equal, value for "
                "value, those of a reference execution with unbuffered inputs, no pacing and GOMAXPROCS=16. Non-trivial: unequal input lengths, or an input <= warm-up, or capacity > 0, "
                "or >= 2 outputs (strategies: a compound expression). Distinct = (subject, configuration, lengths, capacity).",
        "technique": "property-based testing (rapid) over configurations, input lengths, channel capacities, pacings and GOMAXPROCS with a goroutine-census deadlock/leak oracle and differential comparison against a reference schedule",
        "level_text": "Pipelines are Kahn networks (blocking sends/receives only), hence determinate: whether a run deadlocks and what it emits depends on configuration, lengths and capacities, which are sampled densely; pacing and thread counts are varied to test that premise. Termination and leaks are verdicts of consistent goroutine snapshots, never timeouts. The scheduler itself is not owned: schedules are sampled, not enumerated.",
        "level_note": "Relevant goroutines are those created during the case whose stack holds a library or harness feeder/reader frame; a 'stuck' verdict needs three identical consecutive snapshots. One case at a time per process.",
        "assumptions": ["the library uses no select and no timers (grep), so a goroutine parked in a channel operation can only be released by another goroutine"],
        "gomaxprocs": [16],
        "quick": {"checks": 120, "shards": 16},
        "thorough": {"checks": 1500, "shards": 16, "timeout": 10800},
    },
    "C09": {
        "race": True,
        "rule": "one rapid property per indicator registry entry, per base strategy and one over decorator/compound expressions: a call history of 2-5 Compute calls (strategies: Compute and "
                "Report calls, all report columns drained) on ONE instance, each call with its own series (lengths 0 .. 2w+25, some <= warm-up), executed one after another (1/3) or "
                "concurrently from separate goroutines (2/3). Built with -race (GORACE=halt_on_error). Oracle: every call's outputs are bitwise equal to those of a fresh instance on "
                "the same input; any race report or fatal runtime error kills the process and is promoted to a violation with the in-flight case as replay. "
                "Non-trivial: calls with >= 2 different lengths. Distinct = (subject, configuration, concurrency, lengths, first series).",
        "technique": "property-based testing (rapid) of call histories on shared instances under the Go race detector, differential against fresh instances",
        "level_text": "Generated histories of sequential and concurrent Compute/Report calls on a single instance are compared bit for bit with fresh instances, under the race detector. The race detector only sees executions that happen: the claim is 'no race and no state carried on the receiver observed in N generated histories', not absence.",
        "level_note": "Happens-before race detection on the executed schedules only; goroutine interleavings are sampled by the runtime scheduler (GOMAXPROCS 16).",
        "assumptions": ["a data race that needs a rare interleaving may go unobserved"],
        "gomaxprocs": [16, 4],
        "quick": {"checks": 12, "shards": 16},
        "thorough": {"checks": 400, "shards": 16, "timeout": 10800},
    },
    "C10": {
        "rule": "rapid-generated operation histories (1-14 operations: Append of 0-5 snapshots / Get / GetSince / LastDate / Assets) over four asset names (one never appended), the same "
                "generator applied to the in-memory, file-system (fresh temp dir) and SQL (in-memory database/sql driver + matching dialect) repositories; snapshot fields are any finite "
                "float64 (extremes, -0, subnormals, random bit patterns), whole-day UTC dates >= 2000-01-03 non-decreasing per asset (equal dates allowed), GetSince bounds on, just "
                "before and just after existing dates. Oracle: a map name -> list model; after EVERY step every read of every name is compared (Get = list, GetSince = those dated >= "
                "bound, LastDate = last date or error when empty, unknown name -> error, Assets: superset of names holding snapshots, subset of names ever appended, no duplicates), "
                "floats bitwise, dates by Equal. Non-trivial: a bounded read hitting an equal date of an asset appended at least twice. Distinct = operation list.",
        "technique": "stateful property-based testing (rapid) of three repository implementations against a map/list reference model, all observers after every step",
        "level_text": "Generated operation histories are applied to each implementation and to a list model, with every read of every name compared after every step, so interactions (append after append, header-only files, equal-date boundaries, reads right after writes) are sampled. The SQL repository is exercised over a harness-written conforming driver.",
        "level_note": "Conformance of a real database/driver is assumed, as the property itself does. Asset names are plain file-name-safe identifiers.",
        "assumptions": ["dates are whole UTC days from 2000 on and non-decreasing per asset, as the CSV date format, the SQL Get bound and Sync presuppose"],
        "gomaxprocs": [2],
        "quick": {"checks": 1200, "shards": 8},
        "thorough": {"checks": 15000, "shards": 16, "timeout": 7200},
    },
    "C11": {
        "rule": "rapid properties per row shape (RowA: string,bool,int8..int64,int; RowB: uint8..uint64,uint,float32,float64; RowC: time in the default and a tagged format, renamed headers "
                "containing a comma and quotes; RowD: single column; asset.Snapshot): 0-8 rows with strings over an alphabet rich in , \" LF CR blanks tabs non-ASCII, extreme integers, "
                "floats over the whole bit space incl. +-Inf, -0, subnormals, NaN (compared as NaN), UTC times at the format's granularity; a permutation of the header columns plus 0-2 "
                "foreign columns (file re-shuffled with encoding/csv); a history of 1-5 WriteToFile / AppendToFile / AppendOrWriteToCsvFile calls on one path checked against a list "
                "model after each call (long-then-short rewrites included); JSON: JSONToChan(ChanToJSON(x)) for int64, finite float64, valid UTF-8 strings and snapshots. Oracle: "
                "read-back rows identical (floats bitwise, times by instant). Non-trivial: a row needing quoting or a float of >= 17 digits. The two recorded encoding/csv losses (CR LF "
                "in a field, lone empty field) are excluded by construction (counted) and re-confirmed by a fixed witness every run. Thorough adds native coverage-guided fuzzing "
                "of the row codecs through rapid.MakeFuzz.",
        "technique": "round-trip property-based testing (rapid) with a file list model for write/append histories; native go fuzzing (rapid.MakeFuzz) in thorough",
        "level_text": "Round-trip identity over every supported kind with values outside the fixtures (quoting, extremes, last-bit floats), header permutations with foreign columns, and generated write/append histories on one file against a list model. Sampling; thorough adds coverage-guided fuzzing of the same oracles.",
        "level_note": "Header-less writing and appending to a missing file are outside the statement and not exercised. Times are UTC (the formats carry no zone).",
        "assumptions": ["times are UTC at the format's granularity; JSON floats are finite and strings valid UTF-8"],
        "gomaxprocs": [2],
        "quick": {"checks": 600, "shards": 8},
        "thorough": {"checks": 20000, "shards": 16, "timeout": 7200, "fuzz": [("FuzzCsvRowA", 60), ("FuzzCsvRowB", 60), ("FuzzCsvRowC", 60)]},
    },
    "C19": {
        "rule": "rapid properties per reader: CSV with and without header x four row shapes (string/bool/ints, uints/floats, times with default and tagged format + renamed headers, "
                "asset.Snapshot); JSON stream reader for int, float64, string, Snapshot; Tiingo GetSince/LastDate against an httptest server with a generated body and status "
                "(200, 204, 301->200, 4xx, 5xx); unreadable paths. Inputs come from a grammar-aware generator (valid text mutated by truncation, dropped/surplus/hostile cells such as "
                "out-of-range numbers, bad dates, NUL, BOM, stray quotes, CRLF, damaged headers, wrong separators, wrong top-level value) and raw bytes in 1/8 of the draws. Oracle: the "
                "process survives (a panic in the reader goroutine kills the test binary and is promoted to a violation with the in-flight case); the stream closes and no library "
                "goroutine remains (goroutine census); the rows delivered equal the well-formed prefix computed by the harness (encoding/csv record by record + strconv per field kind; "
                "encoding/json element by element); non-200 -> error; unreadable file -> error. Non-trivial: >= 1 well-formed record followed by a malformed one (or a non-success "
                "status). Thorough adds native fuzz targets FuzzCsvHeader, FuzzCsvNoHeader, FuzzJSON with the same oracles.",
        "technique": "grammar-aware property-based testing (rapid) with a well-formed-prefix differential oracle and goroutine census; native coverage-guided fuzzing in thorough",
        "level_text": "Hostile CSV/JSON/HTTP inputs are generated from mutated valid text and raw bytes; survival, stream closure and absence of leftover goroutines are checked for every input, and the delivered records are compared with an independently computed well-formed prefix. Sampling plus (thorough) coverage-guided fuzzing; never establishes absence.",
        "level_note": "Headers that name a struct column twice are ambiguous and only checked for survival/closure. LastDate on a malformed-but-valid JSON value (e.g. null) is not asserted.",
        "assumptions": ["the well-formed prefix is defined through encoding/csv and encoding/json tokenisation, which the library also uses"],
        "gomaxprocs": [2],
        "quick": {"checks": 700, "shards": 8},
        "thorough": {"checks": 5000, "shards": 16, "timeout": 7200, "fuzz": [("FuzzCsvHeader", 60), ("FuzzCsvNoHeader", 60), ("FuzzJSON", 60)]},
    },
    "C12": {
        "race": True,
        "rule": "rapid-generated scenarios: 0-6 assets, each with source days (increasing, gaps; 10% missing from the source) and a target that is unknown / empty / a prefix of the source "
                "(last target date equals a source date: the +1 day boundary) / disjoint earlier / ahead of the source; explicit asset list or none (taken from the target); default start "
                "date; workers 1-8; per-asset injected source-read and target-append faults; in-memory or file-system target; Delay 0; Sync run twice. Built with -race. Oracle: slice "
                "model of the statement per requested, non-faulted asset (previous snapshots followed by the source's snapshots dated >= last target date + 1 day, or >= default start "
                "when the target had none, in source order), faulted assets unchanged, returned error != nil iff a requested asset faulted or is missing from the source, second run "
                "changes nothing and reports the same, final state and error status equal to those of a workers=1 replay, no race report. Non-trivial: >= 3 assets, >= 1 fault, "
                "workers >= 2 and an asset on the +1-day boundary. Distinct = whole scenario.",
        "technique": "property-based testing (rapid) with injected repository faults against a slice model, differential over worker counts, under the Go race detector",
        "level_text": "Generated repository states, asset lists, fault subsets and worker counts are run through Sync twice and compared with a slice model of the statement (idempotence, +1-day boundary, default start, fault isolation, error reporting, worker independence), under the race detector. Worker interleavings are sampled, not enumerated.",
        "level_note": "Faults of LastDate are not injected (the statement quantifies over read/append faults). Snapshot payloads encode (asset, day) so misplaced rows are visible.",
        "assumptions": ["dates are whole days; the source is an in-memory repository behind a fault-injecting wrapper"],
        "gomaxprocs": [16, 4],
        "quick": {"checks": 600, "shards": 16},
        "thorough": {"checks": 20000, "shards": 16, "timeout": 7200},
    },
    "C13": {
        "race": True,
        "rule": "rapid-generated scenarios: in-memory repository with 1-12 assets x 20-120 low-volatility snapshots (so that outcomes of different strategies lie within a percentage point of "
                "each other), some assets with a block of snapshots dated >= 30 days before the look-back window and the rest >= 20 days inside it (never near its wall-clock edge); "
                "1-5 scripted strategies (exact duplicates in 1/4 of the draws: ties) plus 0-3 registry strategies of distinct types; workers 1-16; LastDays in {200,365,500}; report in "
                "{recording, DataReport, HTMLReport without / with per-strategy pages}. Built with -race. Oracle: recording report: begin first, end last, per asset begin < its writes "
                "< end, exactly one write per (asset, strategy); DataReport: one result per pair, outcome bitwise / last action / action list equal to evaluating a fresh strategy "
                "directly on the in-window snapshots; HTML: parsed <asset>.html and index.html rows: one per strategy / asset, printed outcomes equal to direct evaluation, in "
                "non-increasing order, first row maximal, index row = that asset's best; no race report, no crash. Non-trivial: workers >= 2, >= 4 assets and two outcomes closer than "
                "1 point. Distinct = whole scenario.",
        "technique": "property-based testing (rapid) of backtest runs against direct evaluation, protocol recording and parsed HTML rankings, under the Go race detector",
        "level_text": "Generated repositories, strategy lists, worker counts and report kinds are run through the backtester; results are compared with direct evaluation (so they are the same for any worker count), the notification protocol is checked on a recording report, and the HTML rankings are parsed and checked for order and maximality with outcomes engineered to lie closer than one point. Worker interleavings are sampled under the race detector.",
        "level_note": "The look-back window is taken from the wall clock inside the library; generated dates keep a margin of >= 20 days from its edge. Rankings are compared on the two-decimal printed outcomes.",
        "assumptions": ["strategy names are unique within a run (as file names of the HTML pages presuppose)"],
        "gomaxprocs": [16, 4],
        "quick": {"checks": 40, "shards": 16},
        "thorough": {"checks": 1500, "shards": 16, "timeout": 7200},
    },
}

# Extensions that came out of the third round of seeded changes (DESIGN.md 8.6), appended to the rules.
_MORE = {
    "C01": " In 1/6 of the draws of the 24 indicators with a field route the instance is a RECONFIGURED one: configured with another generated configuration, run once over 0-40 canned values, "
           "then assigned the exported fields of the configuration under test. In 1/6 of all generated bars prices are multiplied by an exact power of two between 2^-40 and 2^30 (the unit of quote).",
    "C02": " Alignment probe (every indicator without a recorded formula defect): one input position is changed; wherever the reference at absolute positions moves by more than 2 x 16 x both error "
           "bounds, value #(position - w) of that output must move too.",
    "C06": " In 1/6 of the cases prices carry an exact power-of-two unit of quote (2^-40 .. 2^30); the expected actions are derived at the natural unit (documented rules are homogeneous in the price unit).",
    "C07": " NestedExpressions: And/Or/Majority/Split/Inverse/NoLoss/StopLoss over each other (depth <= 3, 1-4 scripted leaves) against the recursively composed slice models; non-trivial = depth >= 2 and a non-Hold expected action.",
    "C08": " ActionsToAnnotations of every legal word equals the letters of the normalised model.",
    "C10": " GetSince bounds are whole UTC days in 2/3 of the draws and otherwise carry 1..86399 seconds within the day; a quarter of them are presented in a zone -12h..+14h (comparison of instants).",
    "C11": " RowE: five date columns in different declared formats (month-first, day-first, compact, minute, default) over a small pool of days whose month-first and day-first texts collide.",
    "C12": " After the two runs the injected faults are lifted and Sync runs a third time (the retry): the target must then hold previous + missing days for every requested asset present in the source, and the source must hold what it held before.",
    "C13": " In a quarter of the cases the same Backtest runs a second time on the same report instance with a shorter strategy list; the report must then hold exactly the second run's results.",
    "C14": " In 1/6 of the cases snapshots are dated at local midnight of a zone between -12h and +14h; the rendered page is parsed (date cell included: the calendar day of the snapshot) for a third of the cases in the quick tier and all in the thorough tier.",
    "C15": " DonchianChannel over positive integer price series (int, int64, int32, int16; flat runs, odd and even values): upper >= middle >= lower and lower <= price <= upper exactly.",
    "C17": " MovingMinMax/<type>: trend.MovingMin and trend.MovingMax (the sliding-window clients of the tree) over all seven element types, periods 1-6, series of 0-24 values from the same alphabets, against the window's minimum and maximum.",
}
for _k, _v in _MORE.items():
    CONFIG[_k]["rule"] += _v

# Extensions that came out of the fourth round of seeded changes.
_MORE4 = {
    "C01": " 1/25 of the draws build the indicator with its argument-less constructor (55 indicators; the configuration is then the documented default). In a quarter of the draws of Macd, MassIndex, Tema, Ppo, Pvo, ChaikinOscillator and KeltnerChannel the smoothing constants of the nested EMA instances are assigned (0.25 .. 3).",
    "C02": " In 1/8 of the cases 1-3 values of the series are missing (NaN): only the length law is checked there.",
    "C04": " In 1/8 of the cases 1-3 values of the series or of the replacement suffix are missing (NaN).",
    "C05": " Compounds: an output that holds a Buy or Sell must have exactly n actions (only an all-Hold output of a too short input may be longer).",
    "C06": " WeightedCloseStrategy.Ma and TsiStrategy.Signal (exported trend.Ma fields) are drawn from Sma, Ema, Smma, Wma, Hma, Kama; SnapshotFields: every SnapshotsAs... extractor against the field lists.",
    "C07": " In half of the nested-expression cases identical sub-expressions are one shared instance (a third of the n-ary nodes repeat their first member); AllAndStrategies / AllSplitStrategies: every ordered pair of 0-4 scripted strategies, names and outputs against And / Split of the pair.",
    "C08": " The scripted strategy of the ComputeWithOutcome check is one-shot: a second Compute call on the instance would replay the word inverted.",
    "C10": " Operations copy (Append(dst, GetSince(src)) inside one repository), peek (a Get stream left open after its first snapshot across LastDate, Assets and another Get) and nospace (file-system: the asset file is a link to /dev/full; Append must return an error). The whole history runs under the goroutine census (a history that never finishes is a violation).",
    "C11": " One string position in eight is a multi-character token that looks like the output of an escaping layer (\\u0026, \\\", &amp;, </script>, NUL, U+2028 ...).",
    "C12": " CLI/indicator-sync: the program built from /repo's cmd/indicator-sync is run between two generated file-system repositories (dates relative to today, kept two days clear of the now-minus-days bound), 1-4 assets, names on the command line or none (= every asset of the source); the target and the exit status are compared with the model.",
    "C13": " CLI/indicator-backtest: the program built from /repo's cmd/indicator-backtest is run on a generated file-system repository (1-4 assets, names or none = all, 1-6 workers); exit status 0, index.html lists exactly the expected assets, every asset page has one row per registry strategy, rows in non-increasing order, and both pages equal (as multisets of name=outcome) those of the same run through the API.",
    "C14": " In half of the rendered cases a write whose last chunk is refused (full disk) precedes the checked write.",
    "C15": " AccelerationBands over integer OHLC (int32, int64, int) with level and daily range drawn on a logarithmic scale up to 2^(bits-5): upper >= middle >= lower.",
    "C19": " In a third of the CSV cases the codec instance has read another generated (damaged) document to its end before.",
}
for _k, _v in _MORE4.items():
    CONFIG[_k]["rule"] += _v
CONFIG["C13"]["thorough"]["checks"] = 500

# Extensions that came out of the fifth round of seeded changes.
_MORE5 = {
    "C01": " Rarely (about one draw in 600, one in 100 in the thorough tier) the input is 2^k-3 .. 2^k+40 values long for k in 8..13.",
    "C02": " For the four types without an IdlePeriod method the declared period is the implied one - until the type grows the method, which is then what is checked.",
    "C03": " Strategy trees share one instance between identical sub-expressions in half of the draws; 1-3 values of the series are missing (NaN) in 1/8 of the cases.",
    "C05": " Threshold pairs (Rsi, StochasticRsi, MoneyFlowIndex) are swapped or equal in a third of the draws; strategy trees may share instances; NaN gaps in 1/8 of the cases.",
    "C08": " Half of the snapshots of the buy-and-hold check are untraded (volume 0), a quarter are flat bars.",
    "C09": " Strategy trees share one instance between identical sub-expressions in half of the draws and repeat a member of a group in a quarter.",
    "C11": " csv/slow-reader: once per run a file is read row by row with a pause of 6 s (21 s in the thorough tier) after the first row.",
    "C12": " CLI look-backs also 120000 and 1000000 days.",
    "C13": " One asset in six has a missing quote (close 0) inside the window; the outcome of every direct evaluation is compared with an independent all-in/all-out simulation of its own actions on the in-window closings; NaN / Inf outcomes are exempt from the order clauses only.",
    "C15": " DonchianChannel also over int8; one case in sixteen uses a window of 100-300 values over a quiet series.",
    "C17": " One case in sixteen is a crowded multiset (120-300 copies of one value inserted, then removed one by one) or a window of 100-300 values over a quiet series.",
    "C19": " filesystem-repository: FileSystemRepository.Get and LastDate on a generated damaged Snapshot file, padded with 100-3000 well-formed rows before or after the damage in a fifth of the cases.",
}
for _k, _v in _MORE5.items():
    CONFIG[_k]["rule"] += _v
for _k in CONFIG:
    CONFIG[_k]["rule"] += " A third of the shards run with the process-local time zone set to UTC+2, a third to UTC-9:30."

# Extensions that came out of the sixth round of seeded changes.
_MORE6 = {
    "C01": " One case in twelve has about a third of its rows unordered (high below low, close outside the range). 47 of the 64 indicators have a field route (and with it the reconfigured-instance route).",
    "C06": " TripleRsi's three RSI levels are drawn independently (10..90 in steps of 10).",
    "C08": " A quarter of the buy-and-hold snapshots have a close outside the bar's high/low range.",
    "C10": " The batch of an Append arrives through helper.SliceToChan, through a buffered channel that already holds all of it, or through one that is half full when Append starts.",
    "C11": " A third of the JSON snapshot dates carry milli- or nanoseconds.",
    "C19": " tiingo/slow-body: once per run a well-formed body of 3000 records is served in two parts 11 s apart (31 s in the thorough tier) to a repository built by asset.NewRepository; half of the ordinary Tiingo cases use the factory too.",
}
for _k, _v in _MORE6.items():
    CONFIG[_k]["rule"] += _v

# Extensions that came out of the seventh round of seeded changes.
_MORE7 = {
    "C01": " float32/<Name>: Sma, Ema, Rma, Wma, MovingSum, MovingMax, MovingMin, Trima, Tema, Macd and Trix instantiated with float32 on dyadic series, against the same references with the error bound scaled to float32.",
    "C06": " GoldenCross: the smoothing constants of both EMAs are float parameters (equal periods allowed).",
    "C07": " A fifth of the scripted leaves of a nested expression end their action stream 1-8 actions early; a group then ends with its shortest member.",
    "C10": " Subject sql/max-dialect: the same driver with SELECT MAX(date) semantics for the last date. A sixth of the appends to the in-memory and file-system repositories are back-fills (older days after newer ones).",
    "C11": " (slow reader: 16 s / 61 s.)",
    "C12": " A child program that is asleep and consumes no CPU time for 30 s is killed and reported as never exiting.",
    "C13": " A sixth of the cases name 2-8 assets the repository does not have (skipped by the backtest; race detector on). Child programs as in C12.",
    "C15": " One case in eight has a third of its bars 1-3 units in the last place wide; the rounding allowance of a range check is the reference error bound where that exceeds 1e-9.",
    "C19": " (slow body: 16 s / 61 s.)",
}
for _k, _v in _MORE7.items():
    CONFIG[_k]["rule"] += _v

# Extensions that came out of the eighth round of seeded changes.
_MORE8 = {
    "C01": " Every indicator gets one input of 2^15+40 values per run; rare long inputs reach 2^16.",
    "C02": " Every indicator gets one input of 2^16+8 values per run (length law only beyond 10000 values).",
    "C03": " Extra strategy entry ApoFastAboveSlow (termination only).",
    "C04": " TripleMovingAverageCrossover: only the slow period has to be the largest. Once per run every indicator and base strategy is cut deep inside a series of 2^15+w+40 positions.",
    "C05": " compound/slow-feed: once per run And / Or / Majority groups are fed by a producer that pauses 21 s (61 s thorough) at snapshot 10. Every base strategy is run once per run over a history of 2^16+8 snapshots.",
    "C06": " A threshold pair is (0, 0) in one draw in twelve.",
    "C07": " MacdRsi: in three cases out of five the instance computes once before its exported sub-strategy fields are replaced.",
    "C08": " Outcome/slow-reader: once per run the reader of the outcome stream of ComputeWithOutcome pauses 21 s (61 s thorough) after the first entry.",
    "C10": " Subject memory/factory: an in-memory repository obtained from asset.NewRepository per case.",
    "C11": " JSON element type asset.TiingoEndOfDay with extreme int64 volumes. (slow reader: 21 s / 61 s.)",
    "C15": " Every claimed indicator gets one input of 2^16+24 bars per run.",
    "C16": " The scalar parameter of Count / Shift / IncrementBy ... is a non-dyadic fraction for the float types in half of the cases.",
    "C19": " The stand-in Tiingo server compresses the body (gzip) when asked, in two cases out of three. (slow body: 21 s / 61 s.)",
}
for _k, _v in _MORE8.items():
    CONFIG[_k]["rule"] += _v
